package c11

import (
	"encoding/base64"
	"fmt"
	"net/url"
	"sort"
	"strconv"
	"strings"
	"unicode/utf8"

	"github.com/regclient/regclient/zz_verif/evid"
	rm "github.com/regclient/regclient/zz_verif/regmodel"
)

// Signatures of the defect families this check knows how to attribute.
const (
	// a host that is not the registry (redirect target, external URL host, upload Location host,
	// Link target) answered 401 with a challenge inside a request chain of registry j and the
	// retry carried j's credentials (to that host, or to the token endpoint that host named)
	sigThirdHost = "third-host-challenge-answered-with-registry-creds"
	// the same for the host named in the Location of an upload session (kept apart because the
	// existing suite, scheme/reg TestBlobPut, exercises exactly this as accepted behaviour)
	sigUploadHost = "upload-location-host-challenge-answered-with-registry-creds"
	// a paged listing (Link: rel=next) is continued through the other member of a mirror pair:
	// the page URL of host A is requested with the auth state of host B, A's challenge is answered with B's credentials
	sigMirrorPage = "paged-list-continued-through-mirror-pair-sends-other-hosts-creds"
	// server directed scheme downgrades
	// the token endpoint a registry named answers with a redirect to another host and the token
	// request (query with account=<user>; with 307/308 the POST form with password / refresh token)
	// is repeated there
	sigTokenRedirect = "token-endpoint-redirect-target-receives-credentials"
	// a redirect to a sub-domain of the registry's host, or to the same host name with another port:
	// net/http keeps the Authorization header of the first request ("same site") and nothing removes it
	sigSameSite      = "authorization-header-kept-on-redirect-to-subdomain-or-other-port"
	sigClearRealm    = "cleartext-credentials-to-tls-host-via-http-realm"
	sigClearDirected = "cleartext-credentials-to-tls-host-via-http-redirect-or-location"
)

type secret struct {
	Owner int
	Kind  string // user | password | identity-token | basic | bearer | refresh
	Val   string
	Forms []string
	Seq   int // Seq of the token response that minted it (-1 static)
	Decoy bool
}

func forms(v string) []string {
	seen := map[string]bool{}
	var out []string
	add := func(s string) {
		if s != "" && !seen[s] {
			seen[s] = true
			out = append(out, s)
		}
	}
	add(v)
	add(url.QueryEscape(v))
	add(url.PathEscape(v))
	add(base64.StdEncoding.EncodeToString([]byte(v)))
	add(base64.RawStdEncoding.EncodeToString([]byte(v)))
	add(base64.URLEncoding.EncodeToString([]byte(v)))
	return out
}

func accountSecrets(a *account, owner int, decoy bool) []secret {
	pair := a.User + ":" + a.Pass
	return []secret{
		{Owner: owner, Kind: "user", Val: a.User, Forms: forms(a.User), Seq: -1, Decoy: decoy},
		{Owner: owner, Kind: "password", Val: a.Pass, Forms: forms(a.Pass), Seq: -1, Decoy: decoy},
		{Owner: owner, Kind: "identity-token", Val: a.IDToken, Forms: forms(a.IDToken), Seq: -1, Decoy: decoy},
		{Owner: owner, Kind: "basic", Val: pair, Seq: -1, Decoy: decoy, Forms: []string{
			base64.StdEncoding.EncodeToString([]byte(pair)), base64.RawStdEncoding.EncodeToString([]byte(pair)),
			base64.URLEncoding.EncodeToString([]byte(pair)), base64.RawURLEncoding.EncodeToString([]byte(pair))}},
	}
}

func (w *world) secrets() []secret {
	var out []secret
	for i := range w.c.Hosts {
		if a := w.c.account(i); a != nil {
			out = append(out, accountSecrets(a, i, false)...)
			if w.c.staleCfg(i) {
				for _, s := range accountSecrets(w.c.oldAccount(i), i, false) {
					if s.Kind != "user" {
						s.Kind = "old-" + s.Kind
						out = append(out, s)
					}
				}
			}
		}
	}
	for n, d := range w.c.Decoys {
		out = append(out, accountSecrets(w.c.decoyAccount(n), d.Target, true)...)
	}
	for _, it := range w.issued {
		out = append(out, secret{Owner: it.Owner, Kind: it.Kind, Val: it.Val, Forms: forms(it.Val), Seq: it.Seq})
	}
	return out
}

func tryB64(f string) string {
	for _, enc := range []*base64.Encoding{base64.StdEncoding, base64.RawStdEncoding, base64.URLEncoding, base64.RawURLEncoding} {
		if b, err := enc.DecodeString(f); err == nil && len(b) >= 6 && utf8.Valid(b) {
			return string(b)
		}
	}
	return ""
}

// haystack is everything a host saw of one request: URL, every header, body, plus the
// URL-/form-/base64-decoded readings of those.
func haystack(e *rm.Entry) string {
	var sb strings.Builder
	add := func(s string) {
		sb.WriteString(s)
		sb.WriteByte('\n')
	}
	add(e.Path)
	add(e.RawQuery)
	if u, err := url.PathUnescape(e.Path); err == nil && u != e.Path {
		add(u)
	}
	if u, err := url.QueryUnescape(e.RawQuery); err == nil && u != e.RawQuery {
		add(u)
	}
	keys := make([]string, 0, len(e.Header))
	for k := range e.Header {
		keys = append(keys, k)
	}
	sort.Strings(keys)
	for _, k := range keys {
		for _, v := range e.Header[k] {
			add(k + ": " + v)
			for _, f := range strings.FieldsFunc(v, func(r rune) bool { return r == ' ' || r == ',' || r == ';' || r == '"' }) {
				if len(f) >= 8 {
					if d := tryB64(f); d != "" {
						add(d)
					}
				}
			}
			if u, err := url.QueryUnescape(v); err == nil && u != v {
				add(u)
			}
		}
	}
	if len(e.Body) > 0 && len(e.Body) <= 1<<16 {
		b := string(e.Body)
		add(b)
		if u, err := url.QueryUnescape(b); err == nil && u != b {
			add(u)
		}
	}
	return sb.String()
}

type stats struct {
	perHost    map[string]int
	requests   int
	traversed  []string
	carried    int // requests that carried at least one secret
	tokenReqs  int
	redirects  int
	challenges int
}

func seqBefore(list []int, seq int) bool {
	for _, s := range list {
		if s < seq {
			return true
		}
	}
	return false
}

func (c *Case) valid(i int) bool { return i >= 0 && i < len(c.Hosts) }

// chainTargets: hosts other than j that requests made on behalf of registry j are sent to
// because a server said so (redirect, external layer URL, upload Location, Link).
// Requests that continue a paged listing (DirectURL without NoMirrors) are tried through every
// member of the mirror group of j, so the chain targets of the whole group count.
func (c *Case) chainTargets(j int) map[int]bool {
	out := map[int]bool{}
	if !c.valid(j) {
		return out
	}
	for p := range c.Hosts {
		if p != j && !c.sameMirrorGroup(j, p) {
			continue
		}
		h := &c.Hosts[p]
		for _, t := range h.Chain {
			if c.valid(t) && t != p {
				out[t] = true
			}
		}
		if c.valid(h.RedirectTo) && h.RedirectTo != p {
			out[h.RedirectTo] = true
			if t := &c.Hosts[h.RedirectTo]; t.Kind == "storage" && c.valid(t.RedirectTo) {
				out[t.RedirectTo] = true // second hop
			}
		}
		// state-changing requests are NoMirrors: their redirect target only counts for the registry itself
		if p == j && c.valid(h.WriteRedir-1) && h.WriteRedir > 0 {
			out[h.WriteRedir-1] = true
		}
		// an upload Location host only counts for the registry that named it: upload session requests
		// are NoMirrors, they never run in the context of another member of the mirror group
		if p == j && c.valid(h.Upload) {
			out[h.Upload] = true
		}
		if c.valid(h.LinkTo) {
			out[h.LinkTo] = true
		}
	}
	if e := c.extHost(); e >= 0 {
		out[e] = true
	}
	if r := c.extReg(); r >= 0 {
		out[r] = true
	}
	delete(out, j)
	return out
}

func (c *Case) upstreamOf(i int) int {
	if c.valid(i) && c.valid(c.Hosts[i].MirrorOf) {
		return c.Hosts[i].MirrorOf
	}
	return i
}

// sameMirrorGroup: an upstream and all of its mirrors.
func (c *Case) sameMirrorGroup(a, b int) bool {
	if !c.valid(a) || !c.valid(b) || c.Hosts[a].Kind != "registry" || c.Hosts[b].Kind != "registry" {
		return false
	}
	return a != b && c.upstreamOf(a) == c.upstreamOf(b)
}

func (c *Case) mirrorPair(a, b int) bool { return c.sameMirrorGroup(a, b) }

func (c *Case) role(x, j int) string {
	if !c.valid(x) {
		return "unknown-host"
	}
	h := &c.Hosts[x]
	if h.Kind != "registry" {
		return h.Kind + "-host"
	}
	if c.valid(j) {
		if h.MirrorOf == j {
			return "mirror"
		}
		if c.Hosts[j].MirrorOf == x {
			return "upstream"
		}
	}
	if h.Unused {
		return "unused-registry"
	}
	return "other-registry"
}

func isCredKind(k string) bool { return k != "bearer" }

func (c *Case) inChain(j, x int) bool {
	for _, t := range c.Hosts[j].Chain {
		if t == x {
			return true
		}
	}
	return false
}

func bareHost(h string) string {
	if k := strings.LastIndexByte(h, ':'); k > 0 {
		h = h[:k]
	}
	return strings.ToLower(strings.TrimSuffix(h, "."))
}

// sameSite mirrors the rule net/http applies to sensitive headers on a redirect: the destination
// host name (without port) equals the initial one or is a sub-domain of it.
func sameSite(initial, dest string) bool {
	i, d := bareHost(initial), bareHost(dest)
	return initial != dest && (d == i || strings.HasSuffix(d, "."+i))
}

// isContinuation: a request for a further page of a tag or referrers listing.
func isContinuation(e *rm.Entry) bool {
	return (e.Class == "tags-list" || e.Class == "referrers") && (strings.Contains(e.RawQuery, "last=") || strings.Contains(e.RawQuery, "page="))
}

// oracle scans every request every model host received, and the captured log.
func oracle(c *Case, res *runResult) ([]*evid.Violation, *stats) {
	w := res.w
	w.m.Lock()
	secrets := w.secrets()
	named := w.named
	challenged := w.challenged
	w.m.Unlock()
	entries := w.m.Entries()
	st := &stats{perHost: map[string]int{}}
	var vs []*evid.Violation
	seen := map[string]bool{}
	addV := func(v *evid.Violation) {
		if !seen[v.Sig] {
			seen[v.Sig] = true
			vs = append(vs, v)
		}
	}
	namedBefore := func(by int, host string, seq int) (bool, bool) {
		found, http := false, false
		for _, n := range named[by] {
			if n.Host == host && n.Seq < seq {
				found = true
				http = http || n.HTTP
			}
		}
		return found, http
	}
	contChallenged := map[int][]int{}
	for _, e := range entries {
		if e.Status == 401 && isContinuation(e) {
			if p, ok := w.idx[e.Host]; ok {
				contChallenged[p] = append(contChallenged[p], e.Seq)
			}
		}
	}
	// namedExactly: host `by` named exactly this token endpoint (host and path) before seq
	namedExactly := func(by int, e *rm.Entry) bool {
		for _, n := range named[by] {
			if n.Host == e.Host && n.Seq < e.Seq && (n.Path == e.Path || !strings.HasPrefix(e.Path, "/token/")) {
				return true
			}
		}
		return false
	}
	// namedExactlySeq: the latest Seq (< e.Seq) at which host `by` named exactly this token endpoint, else -1
	namedExactlySeq := func(by int, e *rm.Entry) int {
		best := -1
		for _, n := range named[by] {
			if n.Host == e.Host && n.Seq < e.Seq && n.Path == e.Path && n.Seq > best {
				best = n.Seq
			}
		}
		return best
	}
	for _, e := range entries {
		st.requests++
		st.perHost[e.Host]++
		if strings.HasPrefix(e.Path, "/token/") {
			st.tokenReqs++
		}
		if e.Status == 401 {
			st.challenges++
		}
		if e.Status >= 300 && e.Status < 400 {
			st.redirects++
		}
		if e.Host == "" || (e.Scheme != "http" && e.Scheme != "https") {
			continue // not transmittable: a real transport refuses such a URL before anything is sent
		}
		x, known := w.idx[e.Host]
		if !known {
			x = -1
		}
		hay := haystack(e)
		carried := ""
		type group struct {
			owner  int
			decoy  bool
			all    []string // kinds found
			leaked []string // kinds found that this host may not receive
			cred   bool     // a leaked kind is a credential (not only an issued bearer token)
		}
		groups := map[int]*group{}
		var order []int
		for si := range secrets {
			s := &secrets[si]
			if s.Seq >= e.Seq {
				continue // minted later
			}
			found := false
			for _, f := range s.Forms {
				if strings.Contains(hay, f) {
					found = true
					break
				}
			}
			if !found {
				continue
			}
			if carried != "" {
				carried += "+"
			}
			carried += fmt.Sprintf("%s[%d]", s.Kind, s.Owner)
			k := s.Owner * 2
			if s.Decoy {
				k++
			}
			g := groups[k]
			if g == nil {
				g = &group{owner: s.Owner, decoy: s.Decoy}
				groups[k] = g
				order = append(order, k)
			}
			g.all = append(g.all, s.Kind)
			if x >= 0 && x == s.Owner {
				continue // its own host
			}
			if x >= 0 && isCredKind(s.Kind) {
				if ok, _ := namedBefore(s.Owner, e.Host, e.Seq); ok {
					continue // the token endpoint that registry j itself named
				}
			}
			g.leaked = append(g.leaked, s.Kind)
			g.cred = g.cred || isCredKind(s.Kind)
		}
		sort.Ints(order)
		for _, k := range order {
			g := groups[k]
			if len(g.leaked) == 0 {
				continue
			}
			j := g.owner
			// ---- a leak: attribute it
			what := fmt.Sprintf("%s of host %d (%s) received by %s (%s) in request #%d %s %s://%s%s?%s", strings.Join(g.leaked, "+"), j, hostName(c, j), e.Host, c.role(x, j), e.Seq, e.Method, e.Scheme, e.Host, e.Path, e.RawQuery)
			if g.decoy {
				addV(evid.V("leak-of-rejected-docker-entry-to-"+c.role(x, j), "credentials of a docker config entry whose key regclient must reject (%q style): %s", "host/repository", what))
				continue
			}
			chain := c.chainTargets(j)
			attributed := false
			// (00) Authorization of the request to registry j inherited by the redirect target
			if x >= 0 && c.valid(j) && !strings.HasPrefix(e.Path, "/token/") && (c.Hosts[j].RedirectTo == x || c.inChain(j, x)) && sameSite(c.Hosts[j].Name, c.Hosts[x].Name) &&
				(strings.Contains(e.RawQuery, "via=rd") || c.Hosts[x].Kind == "storage") {
				addV(evid.V(sigSameSite, "%s; registry %d redirected the blob GET to this host, whose name is a sub-domain of / the same name with another port as the registry's", what, j))
				continue
			}
			// (0) the token request followed a redirect issued by a token endpoint
			if x >= 0 && g.cred && strings.HasPrefix(e.Path, "/token/") && strings.Contains(e.RawQuery, "rd=1") {
				if k, err := strconv.Atoi(strings.TrimPrefix(e.Path, "/token/")); err == nil && c.valid(k) && c.Hosts[k].Auth.TokRedir-1 == x {
					addV(evid.V(sigTokenRedirect, "%s; the token endpoint of host %d answered %d with a Location on this host and the http client followed it with the token request", what, k, c.Hosts[k].Auth.TokRedirSt))
					attributed = true
				}
			}
			// (1) a token endpoint request: the cause is the third host of the chain that named exactly
			// this endpoint (host and path) most recently. Whether the receiving host also happens to be a
			// chain host that challenged for itself (e.g. a registry that is a redirect target) is irrelevant.
			if !attributed && x >= 0 && g.cred && strings.HasPrefix(e.Path, "/token/") {
				best, bestSeq := -1, -1
				for y := 0; y < len(c.Hosts); y++ {
					if y == j || !chain[y] {
						continue
					}
					sq := namedExactlySeq(y, e)
					if sq < 0 {
						continue
					}
					// an upload-location host that named the endpoint wins over other namers (when both named
					// the same realm the request cannot be told apart; the upload path is the one that is
					// accepted behaviour), otherwise the most recent namer
					up, bestUp := c.Hosts[y].Kind == "upload", best >= 0 && c.Hosts[best].Kind == "upload"
					if best < 0 || (up && !bestUp) || (up == bestUp && sq > bestSeq) {
						best, bestSeq = y, sq
					}
				}
				if best >= 0 {
					sig := sigThirdHost
					if c.Hosts[best].Kind == "upload" {
						sig = sigUploadHost
					}
					addV(evid.V(sig, "%s; this token endpoint was named by the challenge of host %d (%s), a third host in the request chain of registry %d, not by registry %d itself", what, best, c.role(best, j), j, j))
					attributed = true
				}
			}
			// (2) the receiving host is itself a third host of the chain and had challenged before
			if !attributed && x >= 0 && chain[x] && seqBefore(challenged[x], e.Seq) {
				sig := sigThirdHost
				if c.Hosts[x].Kind == "upload" {
					sig = sigUploadHost
				}
				addV(evid.V(sig, "%s; that host is a %s reached from registry %d because a server response pointed there, it had answered 401 with a challenge before", what, c.role(x, j), j))
				attributed = true
			}
			if attributed {
				continue
			}
			// continuation of a paged list (Link rel=next → DirectURL without NoMirrors) sent through
			// another member of the mirror group: host p answered 401 to a continuation request,
			// afterwards credentials of group member j arrive at p or at the token endpoint p named
			if x >= 0 {
				for p := 0; p < len(c.Hosts); p++ {
					if !c.sameMirrorGroup(j, p) || !seqBefore(contChallenged[p], e.Seq) {
						continue
					}
					if (x == p && (isContinuation(e) || strings.HasPrefix(e.Path, "/token/"))) || (g.cred && namedExactly(p, e)) {
						addV(evid.V(sigMirrorPage, "%s; hosts %d and %d belong to one upstream/mirror group, host %d had answered 401 to the continuation request of a paged tag/referrers listing", what, j, p, p))
						attributed = true
						break
					}
				}
			}
			if attributed {
				continue
			}
			class := "bearer-token"
			if g.cred {
				class = "credentials"
			}
			addV(evid.V(fmt.Sprintf("leak-%s-to-%s", class, c.role(x, j)), "%s", what))
		}
		if carried != "" {
			st.carried++
			if x >= 0 && c.tlsConfigured(x) && e.Scheme != "https" {
				what := fmt.Sprintf("request #%d %s %s://%s%s?%s carries secrets (%s = kind[owner]) in clear text although the client configuration of %s says TLS %s", e.Seq, e.Method, e.Scheme, e.Host, e.Path, e.RawQuery, carried, e.Host, c.effTLS(x))
				sig := "cleartext-credentials-to-tls-host"
				if strings.HasPrefix(e.Path, "/token/") {
					for by := 0; by < len(c.Hosts); by++ {
						if _, http := namedBefore(by, e.Host, e.Seq); http {
							sig = sigClearRealm
							what += fmt.Sprintf("; the realm was given with scheme http by the challenge of host %d", by)
							break
						}
					}
				} else if strings.Contains(e.RawQuery, "via=rd") {
					for r := range c.Hosts {
						if c.Hosts[r].RedirectTo == x && c.Hosts[r].RedirectScheme == "http" {
							sig = sigClearDirected
							what += fmt.Sprintf("; registry %d redirected the blob GET to an http URL", r)
							break
						}
					}
				} else if strings.HasPrefix(e.Class, "upload-") && e.Ref != "" && c.Hosts[x].LocScheme == "http" {
					sig = sigClearDirected
					what += "; the registry opened the upload session with an absolute http Location"
				}
				addV(evid.V(sig, "%s", what))
			}
		}
	}
	// ---- log output (as written, and with JSON / quoting escapes undone)
	logText := res.log
	if unesc := strings.NewReplacer(`\u0026`, "&", `\u003c`, "<", `\u003e`, ">", `\"`, `"`, `\\`, `\`).Replace(res.log); unesc != res.log {
		logText += "\n" + unesc
	}
	for si := range secrets {
		s := &secrets[si]
		if s.Kind == "user" {
			continue // user names are logged on purpose ("Loading config ... user=")
		}
		for _, f := range s.Forms {
			if i := strings.Index(logText, f); i >= 0 {
				lo, hi := i-200, i+len(f)+40
				if lo < 0 {
					lo = 0
				}
				if hi > len(logText) {
					hi = len(logText)
				}
				addV(evid.V("secret-in-log-"+s.Kind, "the %s of host %d appears in the log output (handler %q, logger enabled for level %q): …%s…", s.Kind, s.Owner, c.LogVia, c.LogLevel, logText[lo:hi]))
				break
			}
		}
	}
	// ---- traversed cross-host edges
	got := func(i int) bool { return c.valid(i) && st.perHost[c.Hosts[i].Name] > 0 }
	edge := map[string]bool{}
	for i := range c.Hosts {
		h := &c.Hosts[i]
		if !got(i) {
			continue
		}
		for _, m := range h.Mirrors {
			if got(m) {
				edge["mirror"] = true
			}
		}
		if h.RedirectTo != i && got(h.RedirectTo) {
			edge["redirect"] = true
		}
		for _, t := range h.Chain {
			if t != i && got(t) {
				edge["redirect"] = true
			}
		}
		if got(h.Upload) {
			edge["upload"] = true
		}
		if got(h.LinkTo) {
			edge["link"] = true
		}
		for _, n := range named[i] {
			if n.Host != h.Name && st.perHost[n.Host] > 0 {
				edge["token"] = true
			}
		}
	}
	if got(c.extHost()) {
		edge["external"] = true
	}
	if r := c.extReg(); r >= 0 {
		for _, e := range entries {
			if e.Host == c.Hosts[r].Name && strings.HasPrefix(e.Path, "/v2/"+extRepo+"/") {
				edge["external"] = true
				break
			}
		}
	}
	for _, o := range c.Ops {
		if o.Kind == "copy" && o.Reg != o.Tgt && got(o.Reg) && got(o.Tgt) && c.isReg(o.Reg) && c.isReg(o.Tgt) {
			edge["copy"] = true
		}
	}
	for k := range edge {
		st.traversed = append(st.traversed, k)
	}
	sort.Strings(st.traversed)
	return vs, st
}

func hostName(c *Case, i int) string {
	if c.valid(i) {
		return c.Hosts[i].Name
	}
	return "?"
}

// caseClasses labels the case for the distribution histogram.
func caseClasses(c *Case, res *runResult, st *stats) []string {
	set := map[string]bool{}
	add := func(s string) { set[s] = true }
	for i := range c.Hosts {
		h := &c.Hosts[i]
		add("host:" + h.Kind)
		if h.Kind == "registry" {
			add("auth:" + h.Auth.Ch.Kind)
			if h.Auth.ChangeAt >= 0 {
				add("auth:changing>" + h.Auth.Alt.Kind)
			}
			if h.Auth.Ch.hasBearer() {
				t := h.Auth.Ch.TokenHost
				switch {
				case t == i:
					add("token-endpoint:self")
				case c.valid(t) && c.Hosts[t].Kind == "registry":
					add("token-endpoint:other-registry")
				default:
					add("token-endpoint:separate-host")
				}
				if h.Auth.Post {
					add("token-flow:post")
				}
				if h.Auth.Refresh {
					add("token-flow:refresh-token")
				}
				if h.Auth.Anon {
					add("token-flow:anonymous")
				}
				if h.Auth.ScopeCheck {
					add("token-flow:scope-check")
				}
			}
			add("cfg:" + h.Cfg)
			if h.Cfg == "docker" {
				add("docker-key:" + h.Key)
				add("docker-form:" + h.DockerForm)
			}
			add("cred:" + h.CredKind)
			add("tls:" + c.effTLS(i))
			if h.RepoAuth {
				add("repo-auth")
			}
			if h.CfgName != "" {
				add("cfg:hostname-differs")
			}
			if c.isHub(i) {
				add("docker-hub")
			}
			if h.Unused {
				add("unused-registry")
			}
			if h.MirrorOf >= 0 {
				add("topology:mirror")
				if h.MirrorHas {
					add("mirror:has-content")
				} else {
					add("mirror:empty")
				}
			}
			if h.RedirectTo == i {
				add("redirect:self-" + h.RedirectScheme)
			} else if c.valid(h.RedirectTo) {
				add("redirect:" + c.Hosts[h.RedirectTo].Kind)
			}
			if h.LocScheme != "" {
				add("upload-location:absolute-" + h.LocScheme)
			}
			if h.NoMountGrant {
				add("mount:declined")
			}
			add(fmt.Sprintf("anonymous-mount:%d", h.AnonMount))
			if h.TagPage > 0 || h.RefPage > 0 {
				add("paged-lists")
			}
		} else {
			if h.Auth.Ch.Kind != "none" {
				add("third-host-auth:" + h.Kind + ":" + h.Auth.Ch.Kind)
			}
		}
		for _, x := range h.Extra {
			add("extra-401:" + h.Kind + ":" + x.Ch.Kind)
			if x.Ch.RealmFor >= 0 {
				add("extra-401:names-registry-token-endpoint")
			}
		}
		for _, ch := range []ChallengeSpec{h.Auth.Ch, h.Auth.Alt} {
			if ch.RealmScheme != "" {
				add("realm-scheme-forced:" + ch.RealmScheme)
			}
		}
	}
	for _, f := range c.Faults {
		k := f.Kind
		if k == "status" {
			k = fmt.Sprintf("status-%d", f.Status)
			if f.RetryAfter != "" {
				add("fault:retry-after")
			}
		}
		add("fault:" + k)
		if c.valid(f.Host) {
			add("fault-on:" + c.role(f.Host, c.upstreamOf(f.Host)))
			h := &c.Hosts[f.Host]
			if h.Kind == "registry" && (len(h.Mirrors) > 0 || h.MirrorOf >= 0) {
				add("fault-on:mirror-group-member")
				// every member of the group requires auth and has its own configured credentials
				all := true
				for p := range c.Hosts {
					if p == f.Host || c.sameMirrorGroup(f.Host, p) {
						if !c.hasCreds(p) || c.Hosts[p].Auth.Ch.Kind == "none" {
							all = false
						}
					}
				}
				if all {
					add("fault-on:mirror-group-all-members-auth-with-own-creds")
				}
			}
		}
	}
	// observed: a transient failure on one member of a mirror group directly followed by a 401 from
	// another member for the same path (fail-over inside one logical request)
	ents := res.w.m.Entries()
	for k := 0; k+1 < len(ents); k++ {
		a, b := ents[k], ents[k+1]
		if a.Fault == "" || a.Host == b.Host || a.Path != b.Path {
			continue
		}
		ia, oka := res.w.idx[a.Host]
		ib, okb := res.w.idx[b.Host]
		if !oka || !okb || !c.sameMirrorGroup(ia, ib) {
			continue
		}
		transient := a.Fault == "reset-before" || a.Fault == "reset-after" || a.Fault == "truncate"
		switch a.Status {
		case 429, 408, 500, 502, 504:
			transient = true
		}
		if transient {
			add("observed:transient-failure-then-request-to-next-group-member")
			if b.Status == 401 {
				add("observed:transient-failure-then-401-from-next-group-member")
				if c.hasCreds(ia) && c.hasCreds(ib) {
					add("observed:transient-then-401-both-members-have-creds")
				}
			}
		}
	}
	nReg := 0
	for i := range c.Hosts {
		if c.hasCreds(i) {
			nReg++
		}
	}
	add(fmt.Sprintf("hosts-with-credentials:%d", nReg))
	add(fmt.Sprintf("model-hosts:%d", len(c.Hosts)))
	if len(c.Decoys) > 0 {
		add("docker-rejected-keys")
	}
	add("log:" + map[string]string{"": "slog-text", "json": "slog-json", "logrus": "logrus-text", "logrus-json": "logrus-json"}[c.LogVia])
	if c.Special {
		add("password:special-characters")
	}
	if c.Chunked {
		add("upload:chunked")
	}
	for _, e := range ents {
		if e.Class == "upload-mount" {
			add(fmt.Sprintf("observed:mount-answered-%d", e.Status))
		}
		if e.Class == "upload-delete" {
			add("observed:upload-cancel")
		}
	}
	if c.DefTLS != "" || c.DefRepoAuth || c.DefHelper {
		add("config-host-default:tls=" + c.DefTLS)
	}
	lvl := c.LogLevel
	if lvl == "" {
		lvl = "trace"
	}
	add("log-level:" + lvl)
	for _, e := range ents {
		if (e.Fault == "reset-before" || e.Fault == "reset-after" || e.Fault == "truncate" || e.Fault == "ctx") &&
			(e.Header.Get("Authorization") != "" || (strings.HasPrefix(e.Path, "/token/") && len(e.Body) > 0)) {
			add("observed:transport-failure-on-request-with-authorization")
			add("observed:transport-failure-with-authorization-at-level-" + lvl)
			break
		}
	}
	if c.DefHelper {
		add("config-host-default:cred-helper")
	}
	if c.CfgVia != "" {
		add("config-hosts-via:" + c.CfgVia)
	}
	if c.DockerEnv {
		add("docker-config:via-env-DOCKER_CONFIG")
	}
	if c.Cache {
		add("client:reg-cache")
	}
	if c.Parallel && len(c.Ops) > 1 {
		add("client:operations-in-parallel")
	}
	if c.ExtBadFirst && c.hasExt() {
		add("external:unavailable-url-listed-first")
	}
	if c.extReg() >= 0 {
		add("external:url-on-a-configured-registry")
	}
	for i := range c.Hosts {
		h := &c.Hosts[i]
		if h.Kind == "registry" {
			if h.Cfg == "" {
				add("cfg:registry-without-configuration")
			}
			if c.staleCfg(i) {
				add("config:older-credentials-in-host-entry-overridden-by-docker-config")
			}
			if h.AlsoDocker {
				add("cfg:host-and-docker-file-same-login")
			}
			if h.DupKey && h.Cfg == "docker" {
				add("docker-key:two-spellings-of-one-host")
			}
			if h.DupMirror {
				add("mirror:listed-twice")
			}
			if h.PathPrefix != "" {
				add("mirror:path-prefix")
			}
			if h.NoHead {
				add("cfg:disable-head")
			}
			if h.HeadNoDigest {
				add("feature:head-without-digest")
			}
			if h.NoTagDelete {
				add("feature:no-tag-delete")
			}
			if h.Auth.TokRedir > 0 {
				add(fmt.Sprintf("token-endpoint:redirects-%d", h.Auth.TokRedirSt))
			}
			switch {
			case strings.HasPrefix(h.Name, "localhost"):
				add("name:localhost")
			case strings.HasPrefix(h.Name, "127."):
				add("name:ipv4-port")
			case strings.HasPrefix(h.Name, "REGISTRY"):
				add("name:upper-case-label")
			case strings.HasSuffix(h.Name, "."):
				add("name:trailing-dot")
			}
		}
		if h.Kind == "storage" && c.valid(h.RedirectTo) {
			add("redirect:two-hops")
		}
		if h.Kind == "registry" && h.WriteRedir > 0 && c.valid(h.WriteRedir-1) {
			add(fmt.Sprintf("write-redirect:%d", h.WriteRedirSt))
		}
		if h.Kind == "registry" && c.valid(h.RedirectTo) && h.RedirectTo != i && sameSite(h.Name, c.Hosts[h.RedirectTo].Name) {
			add("redirect:target-in-same-site-as-registry")
		}
		if h.Kind == "registry" && len(h.Chain) > 0 {
			add(fmt.Sprintf("redirect-chain:%d-hops", len(h.Chain)))
			if h.ChainHead {
				add("redirect-chain:head-too")
			}
			add("redirect-chain:registry-auth-" + h.Auth.Ch.Kind)
			for k, t := range h.Chain {
				if !c.valid(t) {
					continue
				}
				switch {
				case t == i:
					add("redirect-chain:back-to-the-registry")
				case sameSite(h.Name, c.Hosts[t].Name):
					add("redirect-chain:own-site-host")
					if k > 0 && h.Chain[k-1] == t {
						add("redirect-chain:consecutive-hops-on-one-own-site-host")
					}
				case c.Hosts[t].Kind == "registry":
					add("redirect-chain:another-registry")
				default:
					add("redirect-chain:third-host")
				}
				if k > 0 && h.Chain[k-1] == t {
					add("redirect-chain:consecutive-hops-on-one-host")
				}
			}
		}
	}
	for k, o := range c.Ops {
		switch o.Form {
		case 1:
			add("ref:tag+digest")
		case 2:
			add("ref:default-tag")
		}
		if o.Tag == "idx" {
			add("ref:index")
		}
		switch {
		case o.Cancel < 0:
			add("context:cancelled-before-call")
		case o.Cancel > 0:
			add("context:cancelled-at-kth-request")
		}
		if o.Kind == "copy" && o.Flags&32 != 0 {
			add("op:copy-to-oci-layout")
		}
		if o.Kind == "bput" {
			if o.Flags&2 != 0 {
				add("op:bput-sha512")
			}
			if o.Flags&1 != 0 {
				add("op:bput-unknown-descriptor")
			}
			add(fmt.Sprintf("op:bput-size-%d", []int{12, 109, 0, 23, 24, 25, 40, 41, 48}[o.N%9]))
		}
		if (o.Kind == "bcopy" || o.Kind == "refsrc") && c.isReg(o.Tgt) && o.Tgt != o.Reg {
			add("op:" + o.Kind + "-cross-registry")
		}
		add("op:" + o.Kind)
		if o.Kind == "bmount" && c.isReg(o.Reg) {
			if c.isReg(o.Tgt) && o.Tgt != o.Reg {
				add("op:bmount-cross-registry")
				if c.hasCreds(o.Reg) && c.hasCreds(o.Tgt) && c.Hosts[o.Tgt].Auth.Ch.Kind != "none" && c.Hosts[o.Tgt].AnonMount == 0 {
					add("op:bmount-cross-registry-authenticated-target-answers-location")
				}
			} else {
				add("op:bmount-same-registry")
			}
		}
		if k < len(res.errs) {
			add("op-outcome:" + res.errs[k])
		}
	}
	for _, e := range st.traversed {
		add("traversed:" + e)
	}
	if len(st.traversed) == 0 {
		add("traversed:none")
	}
	if st.carried > 0 {
		add("secrets-on-the-wire")
	}
	if st.tokenReqs > 0 {
		add("token-requests")
	}
	if res.timedOut {
		add("outcome:watchdog")
	}
	if res.w.m.CapHit() {
		add("outcome:request-cap")
	}
	for _, it := range res.w.issued {
		add("issued:" + it.Kind)
	}
	out := make([]string, 0, len(set))
	for k := range set {
		out = append(out, k)
	}
	sort.Strings(out)
	return out
}
