package c11

import (
	"bytes"
	"context"
	"encoding/base64"
	"encoding/json"
	"fmt"
	"io"
	"log/slog"
	"os"
	"path/filepath"
	"sort"
	"strings"
	"sync"
	"testing"
	"time"

	"github.com/opencontainers/go-digest"
	"github.com/sirupsen/logrus"
	"gopkg.in/yaml.v3"
	"pgregory.net/rapid"

	"github.com/regclient/regclient"
	"github.com/regclient/regclient/config"
	"github.com/regclient/regclient/scheme"
	"github.com/regclient/regclient/scheme/reg"
	"github.com/regclient/regclient/types"
	"github.com/regclient/regclient/types/descriptor"
	"github.com/regclient/regclient/types/manifest"
	"github.com/regclient/regclient/types/platform"
	"github.com/regclient/regclient/types/ref"
	"github.com/regclient/regclient/zz_verif/evid"
	"github.com/regclient/regclient/zz_verif/rcutil"
	rm "github.com/regclient/regclient/zz_verif/regmodel"
)

const prop = "C11"

func TestMain(m *testing.M) {
	code := m.Run()
	evid.Flush(code)
	os.Exit(code)
}

// lockedBuf is a log sink safe for concurrent writers.
type lockedBuf struct {
	mu sync.Mutex
	b  bytes.Buffer
}

func (l *lockedBuf) Write(p []byte) (int, error) {
	l.mu.Lock()
	defer l.mu.Unlock()
	return l.b.Write(p)
}

func (l *lockedBuf) String() string {
	l.mu.Lock()
	defer l.mu.Unlock()
	return l.b.String()
}

func b64(s string) string { return base64.StdEncoding.EncodeToString([]byte(s)) }

func tlsConf(s string) config.TLSConf {
	switch s {
	case "enabled":
		return config.TLSEnabled
	case "insecure":
		return config.TLSInsecure
	case "disabled":
		return config.TLSDisabled
	}
	return config.TLSUndefined
}

func dockerEntry(a *account, form string) map[string]string {
	switch form {
	case "userpass":
		return map[string]string{"username": a.User, "password": a.Pass}
	case "idtoken":
		return map[string]string{"identitytoken": a.IDToken}
	case "idtoken+auth0":
		return map[string]string{"auth": b64("00000000-0000-0000-0000-000000000000:"), "identitytoken": a.IDToken}
	case "idtoken+auth":
		return map[string]string{"auth": b64(a.User + ":" + a.Pass), "identitytoken": a.IDToken}
	}
	return map[string]string{"auth": b64(a.User + ":" + a.Pass)}
}

// hostViaText passes a host entry through the text form of a configuration file (JSON as regctl writes it, YAML as
// regsync / regbot read it): the text is written here field by field, independently of config.Host's own marshalling,
// and decoded with the repository's UnmarshalJSON / UnmarshalText, so that "configured for TLS" also means "configured
// in a file".
func hostViaText(ch config.Host, via string) (config.Host, error) {
	tls := map[config.TLSConf]string{config.TLSEnabled: "enabled", config.TLSInsecure: "insecure", config.TLSDisabled: "disabled"}[ch.TLS]
	if via == "json-title" && tls != "" {
		tls = strings.ToUpper(tls[:1]) + tls[1:]
	}
	m := map[string]any{}
	set := func(k string, v any, zero bool) {
		if !zero {
			m[k] = v
		}
	}
	set("tls", tls, tls == "")
	set("hostname", ch.Hostname, ch.Hostname == "")
	set("user", ch.User, ch.User == "")
	set("pass", ch.Pass, ch.Pass == "")
	set("token", ch.Token, ch.Token == "")
	set("credHelper", ch.CredHelper, ch.CredHelper == "")
	set("pathPrefix", ch.PathPrefix, ch.PathPrefix == "")
	set("mirrors", ch.Mirrors, len(ch.Mirrors) == 0)
	set("priority", ch.Priority, ch.Priority == 0)
	set("repoAuth", ch.RepoAuth, !ch.RepoAuth)
	set("apiOpts", ch.APIOpts, len(ch.APIOpts) == 0)
	var out config.Host
	if via == "yaml" {
		m["registry"] = ch.Name
		b, err := yaml.Marshal(m)
		if err != nil {
			return out, err
		}
		if err := yaml.Unmarshal(b, &out); err != nil {
			return out, fmt.Errorf("harness-config-yaml: %w (%s)", err, b)
		}
		return out, nil
	}
	b, err := json.Marshal(m)
	if err != nil {
		return out, err
	}
	if err := json.Unmarshal(b, &out); err != nil {
		return out, fmt.Errorf("harness-config-json: %w (%s)", err, b)
	}
	out.Name = ch.Name // the JSON file provides the name as the object key
	return out, nil
}

// buildClient configures a client exactly as the case says.
func buildClient(c *Case, w *world, logw io.Writer) (*regclient.RegClient, func(), error) {
	// the logger comes first so that the configuration loading below is logged too
	conf := rcutil.Conf{}
	var hosts []config.Host
	// the level the logger is enabled for is part of the case ("secrets never appear in log output at any level")
	sl, ll := slog.Level(types.LevelTrace), logrus.TraceLevel
	switch c.LogLevel {
	case "debug":
		sl, ll = slog.LevelDebug, logrus.DebugLevel
	case "info":
		sl, ll = slog.LevelInfo, logrus.InfoLevel
	case "warn":
		sl, ll = slog.LevelWarn, logrus.WarnLevel
	case "error":
		sl, ll = slog.LevelError, logrus.ErrorLevel
	}
	switch c.LogVia {
	case "json":
		conf.Opts = append(conf.Opts, regclient.WithSlog(slog.New(slog.NewJSONHandler(logw, &slog.HandlerOptions{Level: sl}))))
	case "logrus", "logrus-json":
		lg := logrus.New()
		lg.SetOutput(logw)
		lg.SetLevel(ll)
		if c.LogVia == "logrus-json" {
			lg.SetFormatter(&logrus.JSONFormatter{})
		}
		conf.Opts = append(conf.Opts, regclient.WithLog(lg))
	default:
		conf.Opts = append(conf.Opts, regclient.WithSlog(slog.New(slog.NewTextHandler(logw, &slog.HandlerOptions{Level: sl}))))
	}
	auths := map[string]map[string]string{}
	helper := map[string]string{} // host name the helper is asked for -> JSON answer
	helperPath := ""
	dir := ""
	cleanup := func() {}
	needDir := func() error {
		if dir != "" {
			return nil
		}
		d, err := os.MkdirTemp("", "c11-cfg-")
		if err != nil {
			return err
		}
		dir = d
		cleanup = func() { os.RemoveAll(d) }
		helperPath = filepath.Join(dir, "docker-credential-c11")
		return nil
	}
	if c.DefTLS != "" || c.DefRepoAuth || c.DefHelper {
		// defaults for hosts that do not say; no login in it ("configured for one registry" is the domain),
		// at most a credential helper, which is asked per host
		def := config.Host{TLS: tlsConf(c.DefTLS), RepoAuth: c.DefRepoAuth}
		if c.DefHelper {
			if err := needDir(); err != nil {
				return nil, nil, err
			}
			def.CredHelper = helperPath
		}
		if c.CfgVia != "" {
			d2, err := hostViaText(def, c.CfgVia)
			if err != nil {
				return nil, nil, err
			}
			d2.Name = ""
			def = d2
		}
		conf.Opts = append(conf.Opts, regclient.WithConfigHostDefault(def))
	}
	for i := range c.Hosts {
		h := &c.Hosts[i]
		if h.Cfg == "" {
			continue
		}
		a := c.account(i)
		ch := config.Host{Name: c.refName(i), RepoAuth: h.RepoAuth, Priority: uint(h.Priority), PathPrefix: h.PathPrefix}
		if h.NoHead {
			ch.APIOpts = map[string]string{"disableHead": "true"}
		}
		for _, m := range h.Mirrors {
			if w.validHost(m) {
				ch.Mirrors = append(ch.Mirrors, c.refName(m))
				if h.DupMirror {
					ch.Mirrors = append(ch.Mirrors, c.refName(m))
				}
			}
		}
		switch h.Cfg {
		case "host", "helper":
			ch.TLS = tlsConf(h.TLS)
			if ch.Name != h.Name && !c.isHub(i) {
				ch.Hostname = h.Name
			}
			if a != nil && h.Cfg == "host" {
				switch h.CredKind {
				case "userpass":
					ch.User, ch.Pass = a.User, a.Pass
				case "token":
					ch.Token = a.IDToken
				case "both":
					ch.User, ch.Pass, ch.Token = a.User, a.Pass, a.IDToken
				case "useronly":
					ch.User = a.User
				}
				if c.staleCfg(i) {
					old := c.oldAccount(i)
					if ch.Pass != "" {
						ch.Pass = old.Pass
					}
					if ch.Token != "" {
						ch.Token = old.IDToken
					}
				}
				if h.AlsoDocker && h.CfgName == "" && (h.CredKind == "userpass" || h.CredKind == "token" || h.CredKind == "both") {
					form := map[string]string{"userpass": "auth", "token": "idtoken", "both": "idtoken+auth"}[h.CredKind]
					key := "https://" + h.Name
					if c.isHub(i) {
						key = "https://index.docker.io/v1/"
					}
					auths[key] = dockerEntry(a, form)
				}
			}
			if a != nil && h.Cfg == "helper" {
				if err := needDir(); err != nil {
					return nil, nil, err
				}
				if !c.DefHelper {
					ch.CredHelper = helperPath
				}
				ans, _ := json.Marshal(map[string]string{"ServerURL": h.Name, "Username": a.User, "Secret": a.Pass})
				if h.CredKind == "token" {
					ans, _ = json.Marshal(map[string]string{"ServerURL": h.Name, "Username": "<token>", "Secret": a.IDToken})
				}
				asked := h.Name // the helper is asked for CredHost, else Hostname
				if c.isHub(i) {
					asked = "https://index.docker.io/v1/"
				}
				helper[asked] = string(ans)
			}
			hosts = append(hosts, ch)
		case "docker":
			if a != nil {
				auths[c.dockerKey(i)] = dockerEntry(a, h.DockerForm)
				if h.DupKey {
					k2 := "https://" + h.Name + "/"
					if c.isHub(i) {
						k2 = hubDNS
						if c.dockerKey(i) == hubDNS {
							k2 = "docker.io"
						}
					} else if c.dockerKey(i) == k2 {
						k2 = h.Name
					}
					if c.isHub(i) || (h.Key != "http" && h.Key != "http-slash") {
						auths[k2] = dockerEntry(a, h.DockerForm)
					}
				}
			}
			if ch.RepoAuth || len(ch.Mirrors) > 0 || ch.Priority != 0 || ch.PathPrefix != "" || h.NoHead {
				hosts = append(hosts, ch)
			}
		}
	}
	for n, d := range c.Decoys {
		if w.validHost(d.Target) {
			auths[c.decoyKey(d)] = dockerEntry(c.decoyAccount(n), d.Form)
		}
	}
	if c.CfgVia != "" {
		for i := range hosts {
			h2, err := hostViaText(hosts[i], c.CfgVia)
			if err != nil {
				cleanup()
				return nil, nil, err
			}
			hosts[i] = h2
		}
	}
	if len(hosts) > 0 {
		conf.Opts = append(conf.Opts, regclient.WithConfigHost(hosts...))
	}
	if len(helper) > 0 || c.DefHelper {
		// a credential helper program: reads the host from stdin, answers with that host's login only
		var sb strings.Builder
		sb.WriteString("#!/bin/sh\nh=$(cat)\ncase \"$h\" in\n")
		keys := make([]string, 0, len(helper))
		for k := range helper {
			keys = append(keys, k)
		}
		sort.Strings(keys)
		for _, k := range keys {
			fmt.Fprintf(&sb, "  '%s') printf '%%s\\n' '%s' ;;\n", k, helper[k])
		}
		sb.WriteString("  *) echo 'credentials not found in native keychain'; exit 1 ;;\nesac\n")
		if err := os.WriteFile(helperPath, []byte(sb.String()), 0o700); err != nil {
			cleanup()
			return nil, nil, err
		}
	}
	if len(auths) > 0 {
		if err := needDir(); err != nil {
			return nil, nil, err
		}
		b, _ := json.Marshal(map[string]any{"auths": auths})
		fn := filepath.Join(dir, "config.json")
		if err := os.WriteFile(fn, b, 0o600); err != nil {
			cleanup()
			return nil, nil, err
		}
		if c.DockerEnv {
			// WithDockerCreds looks in $DOCKER_CONFIG; the option runs inside rcutil.New below (cases of one process run one after the other)
			os.Setenv("DOCKER_CONFIG", dir)
			defer os.Unsetenv("DOCKER_CONFIG")
			conf.Opts = append(conf.Opts, regclient.WithDockerCreds())
		} else {
			conf.Opts = append(conf.Opts, regclient.WithDockerCredsFile(fn))
		}
	}
	if c.Cache {
		conf.RegOpts = append(conf.RegOpts, reg.WithCache(time.Minute, 50))
	}
	if c.Chunked {
		conf.RegOpts = append(conf.RegOpts, reg.WithBlobSize(24, 40))
	}
	return rcutil.New(w.m, conf), cleanup, nil
}

// contentOf returns the content seeded for registry i, repository r.
func (c *Case) contentOf(i, r int) *content {
	src := i
	if m := c.Hosts[i].MirrorOf; m >= 0 && m < len(c.Hosts) {
		src = m
	}
	return c.mkContent(src, r)
}

func (c *Case) isReg(i int) bool {
	return i >= 0 && i < len(c.Hosts) && c.Hosts[i].Kind == "registry" && !c.Hosts[i].Unused
}

func runOp(ctx context.Context, rc *regclient.RegClient, c *Case, o Op) error {
	if !c.isReg(o.Reg) {
		return nil
	}
	repo := o.Repo & 1
	ct := c.contentOf(o.Reg, repo)
	tag := o.Tag
	if _, ok := ct.Man[tag]; !ok {
		tag = "v1"
	}
	base := c.refName(o.Reg) + "/" + repoNames[repo]
	mkRef := func(s string) (ref.Ref, error) { return ref.New(s) }
	rTag, err := mkRef(base + ":" + tag)
	if err != nil {
		return fmt.Errorf("harness-ref: %w", err)
	}
	rMan := rTag
	switch {
	case o.Form == 1:
		rMan, err = mkRef(base + ":" + tag + "@" + ct.ManDig[tag])
	case o.Form == 2:
		rMan, err = mkRef(base) // default tag (latest)
	case o.Digest:
		rMan, err = mkRef(base + "@" + ct.ManDig[tag])
	}
	if err != nil {
		return fmt.Errorf("harness-ref: %w", err)
	}
	tgtRepoRef := func(suffix string) (ref.Ref, error) {
		if c.isReg(o.Tgt) && o.Tgt != o.Reg {
			return mkRef(c.refName(o.Tgt) + "/" + repoNames[o.TgtRepo&1] + suffix)
		}
		return mkRef(c.refName(o.Reg) + "/" + repoNames[1-repo] + suffix)
	}
	bi := o.Blob & 3
	if bi == 3 && ct.ExtPath == "" {
		bi = 1
	}
	bdesc := descriptor.Descriptor{MediaType: mtOCILayer, Digest: digest.Digest(ct.Digs[bi]), Size: int64(len(ct.Blobs[bi]))}
	if bi == 3 {
		bdesc.MediaType = mtForeign
		bdesc.URLs = c.extURLs(ct)
	}
	switch o.Kind {
	case "ping":
		_, err = rc.Ping(ctx, rTag)
	case "mget":
		if o.Flags&1 != 0 {
			_, err = rc.ManifestGet(ctx, rMan, regclient.WithManifestPlatform(platform.Platform{OS: "linux", Architecture: "arm64"}))
		} else {
			_, err = rc.ManifestGet(ctx, rMan)
		}
	case "mhead":
		if o.Flags&1 != 0 {
			_, err = rc.ManifestHead(ctx, rMan, regclient.WithManifestRequireDigest())
		} else {
			_, err = rc.ManifestHead(ctx, rMan)
		}
	case "tagdel":
		var rd ref.Ref
		rd, err = mkRef(base + ":a3")
		if err != nil {
			return fmt.Errorf("harness-ref: %w", err)
		}
		err = rc.TagDelete(ctx, rd)
	case "imgconfig":
		_, err = rc.ImageConfig(ctx, rMan)
	case "export":
		err = rc.ImageExport(ctx, rMan, io.Discard)
	case "bcopy":
		var rt ref.Ref
		rt, err = tgtRepoRef(":x")
		if err != nil {
			return fmt.Errorf("harness-ref: %w", err)
		}
		err = rc.BlobCopy(ctx, rTag, rt, bdesc)
	case "refsrc":
		var rs, src ref.Ref
		rs, err = mkRef(base + "@" + ct.ManDig["v1"])
		if err != nil {
			return fmt.Errorf("harness-ref: %w", err)
		}
		src, err = tgtRepoRef("")
		if err != nil {
			return fmt.Errorf("harness-ref: %w", err)
		}
		_, err = rc.ReferrerList(ctx, rs, scheme.WithReferrerSource(src))
	case "mputsub":
		ec := descJSON(mtEmpty, "sha256:44136fa355b3678a1146ad16f7e8649e94fb4fc21fe77e8310c060f61caaff8a", 2, `,"data":"e30="`)
		body := fmt.Sprintf(`{"schemaVersion":2,"mediaType":%q,"artifactType":%q,"config":%s,"layers":[%s],"subject":%s,"annotations":{"c11":"sub-%d"}}`, mtOCIManifest, sigType+".put", ec,
			descJSON(mtOCILayer, ct.Digs[1], len(ct.Blobs[1]), ""), descJSON(mtOCIManifest, ct.ManDig["v1"], len(ct.Man["v1"]), ""), o.N)
		var m manifest.Manifest
		m, err = manifest.New(manifest.WithRaw([]byte(body)))
		if err != nil {
			return fmt.Errorf("harness-manifest: %w", err)
		}
		var rp ref.Ref
		rp, err = mkRef(base + "@" + m.GetDescriptor().Digest.String())
		if err != nil {
			return fmt.Errorf("harness-ref: %w", err)
		}
		err = rc.ManifestPut(ctx, rp, m)
	case "mput":
		body := fmt.Sprintf(`{"schemaVersion":2,"mediaType":%q,"config":%s,"layers":[%s],"annotations":{"c11":"put-%d"}}`, mtOCIManifest,
			descJSON(mtOCIConfig, ct.Digs[0], len(ct.Blobs[0]), ""), descJSON(mtOCILayer, ct.Digs[1], len(ct.Blobs[1]), ""), o.N)
		var m manifest.Manifest
		m, err = manifest.New(manifest.WithRaw([]byte(body)))
		if err != nil {
			return fmt.Errorf("harness-manifest: %w", err)
		}
		var rp ref.Ref
		rp, err = mkRef(base + ":put" + fmt.Sprint(o.N))
		if err != nil {
			return fmt.Errorf("harness-ref: %w", err)
		}
		err = rc.ManifestPut(ctx, rp, m)
	case "mdel":
		var rd ref.Ref
		rd, err = mkRef(base + "@" + ct.ManDig["tmp"])
		if err != nil {
			return fmt.Errorf("harness-ref: %w", err)
		}
		if o.Flags&1 != 0 {
			err = rc.ManifestDelete(ctx, rd, regclient.WithManifestCheckReferrers())
		} else {
			err = rc.ManifestDelete(ctx, rd)
		}
	case "bget":
		var br interface {
			io.Reader
			Close() error
		}
		br, err = rc.BlobGet(ctx, rTag, bdesc)
		if err == nil {
			_, err = io.Copy(io.Discard, br)
			_ = br.Close()
		}
	case "bhead":
		var br interface{ Close() error }
		br, err = rc.BlobHead(ctx, rTag, bdesc)
		if err == nil {
			_ = br.Close()
		}
	case "bput":
		// sizes around the chunk size (24) and the monolithic limit (40) of the chunked configuration
		size := []int{12, 109, 0, 23, 24, 25, 40, 41, 48}[o.N%9]
		data := []byte(fmt.Sprintf("c11 up %d %d ", c.Salt, o.N) + strings.Repeat("0123456789", 12))[:size]
		d := descriptor.Descriptor{Digest: digest.FromBytes(data), Size: int64(len(data))}
		if o.Flags&2 != 0 {
			d.Digest = digest.SHA512.FromBytes(data)
		}
		if o.Flags&1 != 0 && len(data) > 0 {
			d = descriptor.Descriptor{} // unknown digest and size: chunked path
		}
		_, err = rc.BlobPut(ctx, rTag, d, bytes.NewReader(data))
	case "bmount":
		var rt ref.Ref
		rt, err = tgtRepoRef(":mnt") // source and target on different registries, or two repositories of one
		if err != nil {
			return fmt.Errorf("harness-ref: %w", err)
		}
		bdesc.URLs = nil
		err = rc.BlobMount(ctx, rTag, rt, bdesc)
	case "bdel":
		err = rc.BlobDelete(ctx, rTag, bdesc)
	case "tags":
		if o.Flags&1 != 0 {
			_, err = rc.TagList(ctx, rTag, scheme.WithTagLimit(2))
		} else {
			_, err = rc.TagList(ctx, rTag)
		}
	case "referrers":
		var rs ref.Ref
		rs, err = mkRef(base + "@" + ct.ManDig["v1"])
		if o.Digest && err == nil {
			_, err = rc.ReferrerList(ctx, rs)
		} else if err == nil {
			rs, _ = mkRef(base + ":v1")
			_, err = rc.ReferrerList(ctx, rs)
		}
	case "catalog":
		if o.Flags&1 != 0 {
			_, err = rc.RepoList(ctx, c.refName(o.Reg), scheme.WithRepoLimit(1))
		} else {
			_, err = rc.RepoList(ctx, c.refName(o.Reg))
		}
	case "copy":
		if !c.isReg(o.Tgt) {
			return nil
		}
		var rt ref.Ref
		if o.Flags&32 != 0 {
			// the target is an OCI layout directory: nothing of any registry's login belongs there
			dir, derr := os.MkdirTemp("", "c11-layout-")
			if derr != nil {
				return fmt.Errorf("harness-tmp: %w", derr)
			}
			defer os.RemoveAll(dir)
			rt, err = mkRef("ocidir://" + dir + ":copied")
		} else {
			rt, err = mkRef(c.refName(o.Tgt) + "/" + repoNames[o.TgtRepo&1] + ":copied")
		}
		if err != nil {
			return fmt.Errorf("harness-ref: %w", err)
		}
		var opts []regclient.ImageOpts
		if o.Flags&8 != 0 {
			opts = append(opts, regclient.ImageWithFastCheck())
		}
		if o.Flags&16 != 0 {
			opts = append(opts, regclient.ImageWithForceRecursive())
		}
		if o.Flags&1 != 0 {
			opts = append(opts, regclient.ImageWithIncludeExternal())
		}
		if o.Flags&2 != 0 {
			opts = append(opts, regclient.ImageWithReferrers())
		}
		if o.Flags&4 != 0 {
			opts = append(opts, regclient.ImageWithDigestTags())
		}
		err = rc.ImageCopy(ctx, rMan, rt, opts...)
	}
	return err
}

func errClass(err error) string {
	if err == nil {
		return "ok"
	}
	s := strings.ToLower(err.Error())
	for _, k := range []string{"harness-", "unauthorized", "not found", "context deadline", "canceled", "retry limit", "backoff", "redirect", "no such host", "cap exceeded", "unsupported", "digest", "range"} {
		if strings.Contains(s, k) {
			return strings.TrimSuffix(k, "-")
		}
	}
	return "other"
}

type runResult struct {
	w        *world
	log      string
	timedOut bool
	errs     []string
}

func run(c *Case) (*runResult, error) {
	w, err := buildWorld(c)
	if err != nil {
		return nil, err
	}
	lb := &lockedBuf{}
	rc, cleanup, err := buildClient(c, w, lb)
	if err != nil {
		return nil, err
	}
	defer cleanup()
	ctx, cancel := context.WithTimeout(context.Background(), 30*time.Second)
	defer cancel()
	res := &runResult{w: w, errs: make([]string, len(c.Ops))}
	// context state per operation: live, cancelled before the call, or cancelled when its k-th request arrives
	type opCtx struct {
		start  int64
		at     int64
		cancel context.CancelFunc
	}
	var (
		mu     sync.Mutex
		seen   int64
		active = map[int]*opCtx{}
	)
	w.m.OnArrive = func(e *rm.Entry) {
		mu.Lock()
		seen++
		for _, oc := range active {
			if oc.at > 0 && seen-oc.start >= oc.at {
				oc.cancel()
			}
		}
		mu.Unlock()
	}
	var harnessErr error
	one := func(k int, o Op) {
		octx, ocancel := context.WithCancel(ctx)
		defer ocancel()
		if o.Cancel < 0 {
			ocancel()
		}
		mu.Lock()
		active[k] = &opCtx{start: seen, at: int64(o.Cancel), cancel: ocancel}
		mu.Unlock()
		err := runOp(octx, rc, c, o)
		mu.Lock()
		delete(active, k)
		res.errs[k] = errClass(err)
		if err != nil && strings.HasPrefix(errClass(err), "harness") {
			harnessErr = err
		}
		mu.Unlock()
	}
	if c.Parallel {
		var wg sync.WaitGroup
		for k, o := range c.Ops {
			wg.Add(1)
			go func(k int, o Op) {
				defer wg.Done()
				one(k, o)
			}(k, o)
		}
		wg.Wait()
	} else {
		for k, o := range c.Ops {
			if ctx.Err() != nil {
				break
			}
			one(k, o)
		}
	}
	if harnessErr != nil {
		return nil, harnessErr
	}
	if ctx.Err() != nil {
		res.timedOut = true
	}
	res.log = lb.String()
	return res, nil
}

func check(c Case, ev *evid.Collector) *evid.Violation {
	res, err := run(&c)
	if err != nil {
		return &evid.Violation{Sig: "harness-setup", Msg: err.Error()}
	}
	vs, st := oracle(&c, res)
	classes := caseClasses(&c, res, st)
	nCred := 0
	for i := range c.Hosts {
		if c.hasCreds(i) {
			nCred++
		}
	}
	nt := nCred >= 2 && len(st.traversed) > 0
	ev.Case(nt, c.shape(), classes...)
	ev.Sample(map[string]any{"hosts": len(c.Hosts), "ops": len(c.Ops), "requests": st.requests, "traversed": st.traversed, "errs": res.errs, "shape": c.shape()})
	if os.Getenv("VERIF_DEBUG") != "" {
		dump(&c, res, vs)
	}
	if len(vs) == 0 {
		return nil
	}
	// report a violation whose signature is not a known finding first, so that the search
	// continues behind known defects
	for _, v := range vs {
		if !ev.IsKnown(v.Sig) {
			return v
		}
	}
	return vs[0]
}

func dump(c *Case, res *runResult, vs []*evid.Violation) {
	fmt.Fprintf(os.Stderr, "---- case: %d hosts, ops %v errs %v\n", len(c.Hosts), c.Ops, res.errs)
	for _, e := range res.w.m.Entries() {
		fmt.Fprintf(os.Stderr, "%3d %-5s %s://%s%s?%s -> %d auth=%q www=%q loc=%q\n", e.Seq, e.Method, e.Scheme, e.Host, e.Path, e.RawQuery, e.Status,
			e.Header.Get("Authorization"), e.RespHeader.Values("WWW-Authenticate"), e.RespHeader.Get("Location"))
	}
	for _, v := range vs {
		fmt.Fprintf(os.Stderr, "VIOLATION %s: %s\n", v.Sig, v.Msg)
	}
	if os.Getenv("VERIF_DEBUG") == "2" {
		fmt.Fprintln(os.Stderr, res.log)
	}
}

func TestVerifProp(t *testing.T) {
	ev := evid.For(prop)
	rapid.Check(t, func(rt *rapid.T) {
		c := gen(rt)
		v := evid.Guard(func() *evid.Violation { return check(c, ev) })
		if ev.Report(v, c) {
			rt.Fatalf("%v", v)
		}
	})
}

func TestVerifReplayDir(t *testing.T) {
	ev := evid.For(prop)
	for _, f := range evid.ReplayFiles() {
		var c Case
		if err := evid.LoadCaseFile(f, &c); err != nil {
			t.Fatalf("%s: %v", f, err)
		}
		for i := 0; i < 5; i++ {
			v := evid.Guard(func() *evid.Violation { return check(c, ev) })
			if ev.Report(v, c) {
				t.Errorf("%s: %v", f, v)
				break
			}
		}
	}
}

func TestVerifReplay(t *testing.T) {
	ev := evid.For(prop)
	var c Case
	ok, err := evid.LoadReplay(&c)
	if !ok {
		t.Skip("no VERIF_REPLAY")
	}
	if err != nil {
		t.Fatal(err)
	}
	for i := 0; i < 10; i++ {
		v := evid.Guard(func() *evid.Violation { return check(c, ev) })
		if v != nil {
			t.Logf("replay %d: %v", i, v)
		}
		if ev.Report(v, c) {
			t.Fatalf("%v", v)
		}
	}
}
