package c11

import (
	"crypto/sha256"
	"encoding/hex"
	"encoding/json"
	"fmt"
	"net/http"
	"net/url"
	"sort"
	"strconv"
	"strings"

	rm "github.com/regclient/regclient/zz_verif/regmodel"
)

const (
	mtOCIManifest = "application/vnd.oci.image.manifest.v1+json"
	mtOCIIndex    = "application/vnd.oci.image.index.v1+json"
	mtOCIConfig   = "application/vnd.oci.image.config.v1+json"
	mtOCILayer    = "application/vnd.oci.image.layer.v1.tar+gzip"
	mtForeign     = "application/vnd.oci.image.layer.nondistributable.v1.tar+gzip"
	mtEmpty       = "application/vnd.oci.empty.v1+json"
	sigType       = "application/vnd.c11.signature.v1"
)

var emptyJSON = []byte("{}")

// content is what is seeded into one (registry, repository).
type content struct {
	Blobs   [4][]byte // config, layer0, layer1, foreign (foreign lives on the external host only)
	Digs    [4]string
	Man     map[string][]byte // v1, ext, sig, sig2, tmp
	ManDig  map[string]string
	ExtPath string
}

func descJSON(mt, dig string, size int, extra string) string {
	return fmt.Sprintf(`{"mediaType":%q,"digest":%q,"size":%d%s}`, mt, dig, size, extra)
}

const extRepo = "ext/files"

// extReg is the registry that serves foreign layer URLs (-1 none).
func (c *Case) extReg() int {
	if i := c.ExtOnReg - 1; i >= 0 && i < len(c.Hosts) && c.Hosts[i].Kind == "registry" && !c.Hosts[i].Unused {
		return i
	}
	return -1
}

func (c *Case) hasExt() bool { return c.extHost() >= 0 || c.extReg() >= 0 }

// extURLs lists the URLs of the foreign layer of (src, repo) in the order the manifest gives them.
func (c *Case) extURLs(ct *content) []string {
	var out []string
	if c.ExtBadFirst {
		if e := c.extHost(); e >= 0 {
			out = append(out, c.naturalScheme(e)+"://"+c.Hosts[e].Name+"/files/gone")
		} else if r := c.extReg(); r >= 0 {
			out = append(out, c.naturalScheme(r)+"://"+c.Hosts[r].Name+"/v2/"+extRepo+"/blobs/sha256:0000000000000000000000000000000000000000000000000000000000000000")
		}
	}
	if r := c.extReg(); r >= 0 {
		out = append(out, c.naturalScheme(r)+"://"+c.Hosts[r].Name+"/v2/"+extRepo+"/blobs/"+ct.Digs[3])
	}
	if e := c.extHost(); e >= 0 {
		out = append(out, c.naturalScheme(e)+"://"+c.Hosts[e].Name+ct.ExtPath)
	}
	return out
}

func (c *Case) extHost() int {
	for i := range c.Hosts {
		if c.Hosts[i].Kind == "external" {
			return i
		}
	}
	return -1
}

// mkContent builds the deterministic content of (src registry, repo).
func (c *Case) mkContent(src, repo int) *content {
	ct := &content{Man: map[string][]byte{}, ManDig: map[string]string{}}
	seed := fmt.Sprintf("c11 content salt=%d host=%d repo=%d", c.Salt, src, repo)
	fill := sha256.Sum256([]byte(seed))
	filler := strings.Repeat(hex.EncodeToString(fill[:]), 3)
	ct.Blobs[1] = []byte(seed + " layer0")
	ct.Blobs[2] = []byte(seed + " layer1 " + filler[:150])
	ct.Blobs[3] = []byte(seed + " foreign " + filler[:40])
	ct.Digs[1] = rm.Digest("sha256", ct.Blobs[1])
	ct.Digs[2] = rm.Digest("sha256", ct.Blobs[2])
	ct.Digs[3] = rm.Digest("sha256", ct.Blobs[3])
	ct.Blobs[0] = []byte(fmt.Sprintf(`{"architecture":"amd64","os":"linux","config":{},"rootfs":{"type":"layers","diff_ids":[%q,%q]},"note":%q}`, ct.Digs[1], ct.Digs[2], seed))
	ct.Digs[0] = rm.Digest("sha256", ct.Blobs[0])
	cfg := descJSON(mtOCIConfig, ct.Digs[0], len(ct.Blobs[0]), "")
	l0 := descJSON(mtOCILayer, ct.Digs[1], len(ct.Blobs[1]), "")
	l1 := descJSON(mtOCILayer, ct.Digs[2], len(ct.Blobs[2]), "")
	put := func(name string, body string) {
		ct.Man[name] = []byte(body)
		ct.ManDig[name] = rm.Digest("sha256", []byte(body))
	}
	put("v1", fmt.Sprintf(`{"schemaVersion":2,"mediaType":%q,"config":%s,"layers":[%s,%s]}`, mtOCIManifest, cfg, l0, l1))
	if c.hasExt() {
		ct.ExtPath = fmt.Sprintf("/files/h%dr%d", src, repo)
		us := c.extURLs(ct)
		q := make([]string, len(us))
		for i, u := range us {
			q[i] = fmt.Sprintf("%q", u)
		}
		lf := descJSON(mtForeign, ct.Digs[3], len(ct.Blobs[3]), `,"urls":[`+strings.Join(q, ",")+`]`)
		put("ext", fmt.Sprintf(`{"schemaVersion":2,"mediaType":%q,"config":%s,"layers":[%s,%s]}`, mtOCIManifest, cfg, l0, lf))
	}
	ec := descJSON(mtEmpty, rm.Digest("sha256", emptyJSON), 2, `,"data":"e30="`)
	subj := descJSON(mtOCIManifest, ct.ManDig["v1"], len(ct.Man["v1"]), "")
	put("sig", fmt.Sprintf(`{"schemaVersion":2,"mediaType":%q,"artifactType":%q,"config":%s,"layers":[%s],"subject":%s}`, mtOCIManifest, sigType, ec, l0, subj))
	put("sig2", fmt.Sprintf(`{"schemaVersion":2,"mediaType":%q,"artifactType":%q,"config":%s,"layers":[%s],"subject":%s,"annotations":{"c11":"second"}}`, mtOCIManifest, sigType+".b", ec, l0, subj))
	put("tmp", fmt.Sprintf(`{"schemaVersion":2,"mediaType":%q,"config":%s,"layers":[%s],"annotations":{"c11":"tmp"}}`, mtOCIManifest, cfg, l0))
	plat := func(arch string) string { return fmt.Sprintf(`,"platform":{"architecture":%q,"os":"linux"}`, arch) }
	put("idx", fmt.Sprintf(`{"schemaVersion":2,"mediaType":%q,"manifests":[%s,%s]}`, mtOCIIndex,
		descJSON(mtOCIManifest, ct.ManDig["v1"], len(ct.Man["v1"]), plat("amd64")), descJSON(mtOCIManifest, ct.ManDig["tmp"], len(ct.Man["tmp"]), plat("arm64"))))
	return ct
}

// store writes content into a model registry repository.
func (ct *content) store(h *rm.Host, repo string, referrersAPI bool) {
	r := h.Repo(repo)
	for i := 0; i < 3; i++ {
		r.Blobs[ct.Digs[i]] = ct.Blobs[i]
	}
	r.Blobs[rm.Digest("sha256", emptyJSON)] = emptyJSON
	for _, n := range []string{"v1", "ext", "sig", "sig2", "tmp"} {
		if b, ok := ct.Man[n]; ok {
			r.Manifests[ct.ManDig[n]] = &rm.Manifest{MediaType: mtOCIManifest, Body: b}
		}
	}
	r.Manifests[ct.ManDig["idx"]] = &rm.Manifest{MediaType: mtOCIIndex, Body: ct.Man["idx"]}
	r.Tags["idx"] = ct.ManDig["idx"]
	for _, t := range []string{"v1", "a1", "a2", "a3", "latest"} {
		r.Tags[t] = ct.ManDig["v1"]
	}
	if d, ok := ct.ManDig["ext"]; ok {
		r.Tags["ext"] = d
	}
	r.Tags["tmp"] = ct.ManDig["tmp"]
	if !referrersAPI {
		idx := fmt.Sprintf(`{"schemaVersion":2,"mediaType":%q,"manifests":[%s,%s]}`, mtOCIIndex,
			descJSON(mtOCIManifest, ct.ManDig["sig"], len(ct.Man["sig"]), fmt.Sprintf(`,"artifactType":%q`, sigType)),
			descJSON(mtOCIManifest, ct.ManDig["sig2"], len(ct.Man["sig2"]), fmt.Sprintf(`,"artifactType":%q`, sigType+".b")))
		d := rm.Digest("sha256", []byte(idx))
		r.Manifests[d] = &rm.Manifest{MediaType: mtOCIIndex, Body: []byte(idx)}
		r.Tags[strings.Replace(ct.ManDig["v1"], ":", "-", 1)] = d
	}
}

type issuedTok struct {
	Val    string
	Owner  int
	Kind   string // bearer | refresh
	Seq    int
	Scopes []string
}

type namedRealm struct {
	Seq  int
	Host string // URL host of the realm
	Path string // path of the realm
	HTTP bool
}

// world is the model plus the authentication state kept by the interceptors.
type world struct {
	c          *Case
	m          *rm.Model
	idx        map[string]int
	mh         []*rm.Host
	issued     []issuedTok
	named      map[int][]namedRealm // challenging host -> realms it named
	challenged map[int][]int        // host -> Seq of every 401 it answered with a Basic/Bearer challenge
	mintN      int
	upN        int
}

func newResp(status int) *rm.Resp {
	return &rm.Resp{Status: status, Header: http.Header{}, TruncateAt: -1}
}

func jsonErr(status int, code, msg string) *rm.Resp {
	r := newResp(status)
	r.Header.Set("Content-Type", "application/json")
	r.Body = []byte(fmt.Sprintf(`{"errors":[{"code":%q,"message":%q}]}`, code, msg))
	return r
}

func buildWorld(c *Case) (*world, error) {
	w := &world{c: c, m: rm.New(), idx: map[string]int{}, named: map[int][]namedRealm{}, challenged: map[int][]int{}}
	w.m.Cap = 600
	w.mh = make([]*rm.Host, len(c.Hosts))
	for i := range c.Hosts {
		if _, dup := w.idx[c.Hosts[i].Name]; dup {
			return nil, fmt.Errorf("duplicate host name %s", c.Hosts[i].Name)
		}
		w.idx[c.Hosts[i].Name] = i
	}
	valid := func(i int) bool { return i >= 0 && i < len(c.Hosts) }
	// registries first (the other kinds refer to them)
	for i := range c.Hosts {
		h := &c.Hosts[i]
		if h.Kind != "registry" {
			continue
		}
		mh := w.m.AddHost(h.Name)
		mh.Feat.MountGrant = !h.NoMountGrant
		switch h.AnonMount {
		case 201, 405:
			mh.Feat.AnonMountStatus = h.AnonMount
		}
		mh.Feat.TagDelete = !h.NoTagDelete
		mh.Feat.HeadNoDigest = h.HeadNoDigest
		mh.Feat.TagListNoRepo404 = true
		mh.Feat.Referrers = h.Referrers
		mh.Feat.ReferrersPage = h.RefPage
		mh.Feat.TagPage = h.TagPage
		mh.Feat.LocStyle = h.LocStyle
		if mh.Feat.LocStyle < 0 || mh.Feat.LocStyle > 3 {
			mh.Feat.LocStyle = 0
		}
		if h.LocScheme == "http" || h.LocScheme == "https" {
			mh.Feat.LocStyle = 0
		}
		if valid(h.Upload) && c.Hosts[h.Upload].Kind == "upload" {
			mh.Feat.LocStyle = 5
			mh.Feat.UploadBackend = c.Hosts[h.Upload].Name
		}
		w.mh[i] = mh
	}
	for i := range c.Hosts {
		h := &c.Hosts[i]
		if h.Kind != "registry" || h.Unused {
			continue
		}
		src := i
		if valid(h.MirrorOf) && c.Hosts[h.MirrorOf].Kind == "registry" {
			if !h.MirrorHas {
				continue
			}
			src = h.MirrorOf
		}
		for r, rn := range repoNames {
			if h.PathPrefix != "" {
				rn = h.PathPrefix + "/" + rn // config pathPrefix: the mirror keeps the repositories inside a namespace
			}
			c.mkContent(src, r).store(w.mh[i], rn, h.Referrers)
		}
	}
	// a registry that is the redirect target of another one also holds that registry's blobs
	for i := range c.Hosts {
		h := &c.Hosts[i]
		if h.Kind == "registry" && valid(h.RedirectTo) && h.RedirectTo != i && c.Hosts[h.RedirectTo].Kind == "registry" {
			src := i
			if valid(h.MirrorOf) && h.MirrorHas {
				src = h.MirrorOf
			}
			for r, rn := range repoNames {
				ct := c.mkContent(src, r)
				rp := w.mh[h.RedirectTo].Repo(rn)
				for k := 0; k < 3; k++ {
					rp.Blobs[ct.Digs[k]] = ct.Blobs[k]
				}
			}
		}
	}
	for i := range c.Hosts {
		h := &c.Hosts[i]
		if h.Kind != "registry" {
			continue
		}
		for _, t := range h.Chain {
			if valid(t) && t != i && c.Hosts[t].Kind == "registry" {
				src := i
				if valid(h.MirrorOf) && h.MirrorHas {
					src = h.MirrorOf
				}
				for r, rn := range repoNames {
					ct := c.mkContent(src, r)
					rp := w.mh[t].Repo(rn)
					for k := 0; k < 3; k++ {
						rp.Blobs[ct.Digs[k]] = ct.Blobs[k]
					}
				}
			}
		}
	}
	for i := range c.Hosts {
		h := &c.Hosts[i]
		var origin *rm.Host
		if valid(h.Origin) {
			origin = w.mh[h.Origin]
		}
		switch h.Kind {
		case "registry":
		case "storage":
			if origin == nil {
				return nil, fmt.Errorf("storage host %d without origin", i)
			}
			w.mh[i] = w.m.AddStorage(h.Name, origin)
		case "upload":
			if origin == nil {
				return nil, fmt.Errorf("upload host %d without origin", i)
			}
			w.mh[i] = w.m.AddAlias(h.Name, origin)
		case "external":
			mh := w.m.AddExternal(h.Name)
			for j := range c.Hosts {
				if c.Hosts[j].Kind != "registry" {
					continue
				}
				for r := range repoNames {
					ct := c.mkContent(j, r)
					mh.Files[ct.ExtPath] = ct.Blobs[3]
				}
			}
			w.mh[i] = mh
		case "token", "link":
			mh := w.m.AddHost(h.Name)
			mh.Kind = "custom"
			w.mh[i] = mh
		default:
			return nil, fmt.Errorf("unknown host kind %q", h.Kind)
		}
	}
	for i := range w.mh {
		if w.mh[i] != nil {
			w.mh[i].Intercept = w.intercept
		}
	}
	if r := c.extReg(); r >= 0 {
		for j := range c.Hosts {
			if c.Hosts[j].Kind != "registry" {
				continue
			}
			for k := range repoNames {
				ct := c.mkContent(j, k)
				w.mh[r].Repo(extRepo).Blobs[ct.Digs[3]] = ct.Blobs[3]
			}
		}
	}
	for _, fs := range c.Faults {
		if !valid(fs.Host) || fs.At < 0 {
			continue
		}
		f := rm.NewFault(fs.Kind)
		switch fs.Kind {
		case "status":
			f.Status = fs.Status
			f.RetryAfter = fs.RetryAfter
			if f.Status < 400 || f.Status > 599 {
				f.Status = 502
			}
		case "reset-before", "reset-after":
		case "truncate":
			f.At = fs.Off
		default:
			continue
		}
		f.Host = c.Hosts[fs.Host].Name
		f.AtHostSeq = fs.At
		w.m.AddFault(f)
	}
	return w, nil
}

// hopURL is the Location that sends a request of registry cr's chain to hop number k (0-based).
func (w *world) hopURL(cr, k int, repo, ref string) string {
	chain := w.c.Hosts[cr].Chain
	if k < 0 || k >= len(chain) || !w.validHost(chain[k]) {
		return ""
	}
	t := &w.c.Hosts[chain[k]]
	q := fmt.Sprintf("?cr=%d&hop=%d&via=rd", cr, k+1)
	base := w.c.naturalScheme(chain[k]) + "://" + t.Name
	switch t.Kind {
	case "storage":
		return base + "/store/" + repo + "/" + ref + q
	case "registry":
		return base + "/v2/" + repo + "/blobs/" + ref + q
	}
	return ""
}

func scopeFor(e *rm.Entry) string {
	if e.Class == "catalog" {
		return "registry:catalog:*"
	}
	if e.Repo == "" {
		return ""
	}
	if e.Method == "GET" || e.Method == "HEAD" {
		return "repository:" + e.Repo + ":pull"
	}
	return "repository:" + e.Repo + ":pull,push"
}

// covers tells whether granted scopes cover the needed one.
func covers(granted []string, need string) bool {
	if need == "" {
		return true
	}
	ni := strings.LastIndexByte(need, ':')
	if ni < 0 {
		return false
	}
	nres, nacts := need[:ni], strings.Split(need[ni+1:], ",")
	have := map[string]bool{}
	for _, g := range granted {
		gi := strings.LastIndexByte(g, ':')
		if gi < 0 || g[:gi] != nres {
			continue
		}
		for _, a := range strings.Split(g[gi+1:], ",") {
			have[a] = true
		}
	}
	for _, a := range nacts {
		if !have[a] && !have["*"] {
			return false
		}
	}
	return true
}

func (w *world) validHost(i int) bool { return i >= 0 && i < len(w.c.Hosts) }

// realm returns the realm URL of a bearer challenge issued by host owner.
func (w *world) realm(owner int, ch ChallengeSpec) (string, int) {
	t := ch.TokenHost
	if !w.validHost(t) {
		t = owner
	}
	sch := ch.RealmScheme
	if sch != "http" && sch != "https" {
		sch = w.c.naturalScheme(t)
	}
	rf := ch.RealmFor
	if !w.validHost(rf) {
		rf = owner
	}
	return fmt.Sprintf("%s://%s/token/%d", sch, w.c.Hosts[t].Name, rf), t
}

// challenge answers 401 according to ch and records what was named.
func (w *world) challenge(owner int, ch ChallengeSpec, e *rm.Entry, insufficient bool) *rm.Resp {
	r := jsonErr(401, "UNAUTHORIZED", "authentication required")
	scope := scopeFor(e)
	basic := fmt.Sprintf(`Basic realm="realm of host %d"`, owner)
	bearer := ""
	if ch.hasBearer() || ch.Kind == "malformed" {
		realm, t := w.realm(owner, ch)
		rpath := realm[strings.Index(realm, "/token/"):]
		w.named[owner] = append(w.named[owner], namedRealm{Seq: e.Seq, Host: w.c.Hosts[t].Name, Path: rpath, HTTP: strings.HasPrefix(realm, "http://")})
		parts := []string{fmt.Sprintf(`realm=%q`, realm)}
		if !ch.NoService {
			parts = append(parts, fmt.Sprintf(`service="svc-%d"`, owner))
		}
		if !ch.NoScope && scope != "" {
			parts = append(parts, fmt.Sprintf(`scope=%q`, scope))
		}
		if insufficient {
			parts = append(parts, `error="insufficient_scope"`)
		}
		switch ch.Variant % 12 {
		case 1, 5, 9:
			bearer = "BEARER " + strings.Join(parts, ",")
		case 2, 6, 10:
			bearer = "Bearer " + strings.Join(parts, ", ")
		case 3:
			bearer = "bearer   " + strings.Join(parts, " , ") // optional white space around the comma (RFC 9110 #rule)
		default:
			bearer = "Bearer " + strings.Join(parts, ",")
		}
	}
	unsupported := []string{"Negotiate", `Digest realm="c11", nonce="5ccc069c403ebaf9f0171e9517f40e41", qop="auth"`, "AWS4-HMAC-SHA256"}[ch.Variant%3]
	good := true
	switch ch.Kind {
	case "basic":
		r.Header.Add("WWW-Authenticate", basic)
	case "bearer":
		r.Header.Add("WWW-Authenticate", bearer)
	case "bearer+bearer":
		// the same scheme twice, with different realms on the same token host
		realm, _ := w.realm(owner, ch)
		second := fmt.Sprintf(`Bearer realm="%s?alt=1",service="svc-alt-%d"`, realm, owner)
		if ch.Variant%2 == 0 {
			r.Header.Add("WWW-Authenticate", bearer+", "+second)
		} else {
			r.Header.Add("WWW-Authenticate", bearer)
			r.Header.Add("WWW-Authenticate", second)
		}
	case "basic+bearer":
		if ch.Variant%2 == 0 {
			r.Header.Add("WWW-Authenticate", basic+", "+bearer)
		} else {
			r.Header.Add("WWW-Authenticate", bearer+", "+basic)
		}
	case "bearer+basic-2h":
		if ch.Variant%2 == 0 {
			r.Header.Add("WWW-Authenticate", bearer)
			r.Header.Add("WWW-Authenticate", basic)
		} else {
			r.Header.Add("WWW-Authenticate", basic)
			r.Header.Add("WWW-Authenticate", bearer)
		}
	case "unsupported+bearer":
		if ch.Variant%2 == 0 {
			r.Header.Add("WWW-Authenticate", unsupported)
			r.Header.Add("WWW-Authenticate", bearer)
		} else {
			r.Header.Add("WWW-Authenticate", "Negotiate, "+bearer)
		}
	case "unsupported":
		r.Header.Add("WWW-Authenticate", unsupported)
		good = false
	case "malformed":
		realm, _ := w.realm(owner, ch)
		v := []string{
			`Bearer realm="` + realm,                         // unterminated quote
			`Bearer realm=,service=`,                         // empty values
			`Basic`,                                          // no realm
			`=broken, realm="` + realm + `"`,                 // no scheme
			`Bearer service="svc"`,                           // no realm
			`Bearer realm="` + realm + `" service="svc"`,     // missing comma
			`Bearer realm="` + realm + `",service="a\`,       // dangling escape
			`Basic realm="x", Bearer realm="` + realm + `",`, // trailing comma
		}
		r.Header.Add("WWW-Authenticate", v[ch.Variant%len(v)])
	case "empty":
		good = false
	default:
		good = false
	}
	if good {
		w.challenged[owner] = append(w.challenged[owner], e.Seq)
	}
	return r
}

func (w *world) mint(owner int, kind string, seq int, scopes []string) string {
	w.mintN++
	s := sha256.Sum256([]byte(fmt.Sprintf("c11|%d|mint|%d|%d|%s", w.c.Salt, owner, w.mintN, kind)))
	pre := "tk"
	if kind == "refresh" {
		pre = "rt"
	}
	v := fmt.Sprintf("%s%d.%s", pre, w.mintN, hex.EncodeToString(s[:])[:44])
	w.issued = append(w.issued, issuedTok{Val: v, Owner: owner, Kind: kind, Seq: seq, Scopes: scopes})
	return v
}

// tokenEndpoint serves /token/<k> (tokens for host k) on any host.
func (w *world) tokenEndpoint(e *rm.Entry, req *http.Request) *rm.Resp {
	k, err := strconv.Atoi(strings.TrimPrefix(e.Path, "/token/"))
	if err != nil || !w.validHost(k) {
		return jsonErr(404, "NOT_FOUND", "no such token endpoint")
	}
	spec := w.c.Hosts[k].Auth
	// the token service moved: it answers with a redirect to another host
	if x := spec.TokRedir - 1; w.validHost(x) && w.c.Hosts[x].Name != e.Host && !strings.Contains(e.RawQuery, "rd=1") {
		st := spec.TokRedirSt
		switch st {
		case 301, 302, 303, 307, 308:
		default:
			st = 307
		}
		q := e.RawQuery
		if q != "" {
			q += "&"
		}
		r := newResp(st)
		r.Header.Set("Location", w.c.naturalScheme(x)+"://"+w.c.Hosts[x].Name+e.Path+"?"+q+"rd=1")
		return r
	}
	acct := w.c.account(k)
	var scopes []string
	authed, anon := false, false
	switch e.Method {
	case "GET":
		scopes = req.URL.Query()["scope"]
		if req.Header.Get("Authorization") != "" {
			u, p, ok := req.BasicAuth()
			authed = ok && acct != nil && u == acct.User && p == acct.Pass
		} else {
			anon = true
		}
	case "POST":
		if !spec.Post {
			return jsonErr(405, "UNSUPPORTED", "POST not supported")
		}
		form, perr := url.ParseQuery(string(e.Body))
		if perr != nil {
			return jsonErr(400, "BAD_REQUEST", "form")
		}
		scopes = strings.Fields(form.Get("scope"))
		switch form.Get("grant_type") {
		case "refresh_token":
			rt := form.Get("refresh_token")
			if acct != nil && rt == acct.IDToken {
				authed = true
			}
			for _, it := range w.issued {
				if it.Kind == "refresh" && it.Owner == k && it.Val == rt {
					authed = true
				}
			}
		case "password":
			authed = acct != nil && form.Get("username") == acct.User && form.Get("password") == acct.Pass
		default:
			anon = true
		}
	default:
		return jsonErr(405, "UNSUPPORTED", "method")
	}
	if !authed && !(anon && spec.Anon) {
		return jsonErr(401, "UNAUTHORIZED", "bad credentials")
	}
	granted := []string{}
	for _, s := range scopes {
		if authed {
			granted = append(granted, s)
			continue
		}
		if i := strings.LastIndexByte(s, ':'); i > 0 && strings.Contains(s[i+1:], "pull") {
			granted = append(granted, s[:i]+":pull")
		}
	}
	tok := w.mint(k, "bearer", e.Seq, granted)
	out := map[string]any{"expires_in": 300}
	switch spec.TokenField {
	case 1:
		out["access_token"] = tok
	case 2:
		out["token"] = tok
		out["access_token"] = tok
	default:
		out["token"] = tok
	}
	if spec.IssuedAt == 1 {
		out["issued_at"] = "2020-01-02T03:04:05Z"
	}
	if spec.Refresh && authed {
		out["refresh_token"] = w.mint(k, "refresh", e.Seq, nil)
	}
	b, _ := json.Marshal(out)
	r := newResp(200)
	r.Header.Set("Content-Type", "application/json")
	r.Body = b
	return r
}

// authorized checks the Authorization header of a request against host i's standing requirement.
func (w *world) authorized(i int, e *rm.Entry, req *http.Request) (ok bool, insufficient bool) {
	a := w.c.Hosts[i].Auth
	allowBasic := a.Ch.hasBasic() || (a.ChangeAt >= 0 && a.Alt.hasBasic())
	allowBearer := a.Ch.hasBearer() || (a.ChangeAt >= 0 && a.Alt.hasBearer())
	ah := req.Header.Get("Authorization")
	switch {
	case strings.HasPrefix(ah, "Basic ") && allowBasic:
		u, p, bok := req.BasicAuth()
		acct := w.c.account(i)
		return bok && acct != nil && u == acct.User && p == acct.Pass, false
	case strings.HasPrefix(ah, "Bearer ") && allowBearer:
		tok := strings.TrimPrefix(ah, "Bearer ")
		for _, it := range w.issued {
			if it.Kind == "bearer" && it.Owner == i && it.Val == tok {
				if a.ScopeCheck && !covers(it.Scopes, scopeFor(e)) {
					return false, true
				}
				return true, false
			}
		}
	}
	return false, false
}

func (w *world) intercept(m *rm.Model, h *rm.Host, e *rm.Entry, req *http.Request) *rm.Resp {
	i, ok := w.idx[e.Host]
	if !ok {
		return nil
	}
	hs := &w.c.Hosts[i]
	if strings.HasPrefix(e.Path, "/token/") {
		return w.tokenEndpoint(e, req)
	}
	for _, x := range hs.Extra {
		if x.At == e.HostSeq {
			return w.challenge(i, x.Ch, e, false)
		}
	}
	if k := hs.Auth.Ch.Kind; k != "" && k != "none" {
		if ok, insufficient := w.authorized(i, e, req); !ok {
			ch := hs.Auth.Ch
			if hs.Auth.ChangeAt >= 0 && e.HostSeq >= hs.Auth.ChangeAt {
				ch = hs.Auth.Alt
			}
			return w.challenge(i, ch, e, insufficient)
		}
	}
	// a redirect chain started by registry cr: this host is hop number `hop`, it passes the request on or serves it
	if q := req.URL.Query(); q.Get("cr") != "" && (e.Method == "GET" || e.Method == "HEAD") {
		cr, err1 := strconv.Atoi(q.Get("cr"))
		hop, err2 := strconv.Atoi(q.Get("hop"))
		if err1 == nil && err2 == nil && w.validHost(cr) && hop >= 1 && hop < len(w.c.Hosts[cr].Chain) && e.Repo != "" && e.Ref != "" {
			if loc := w.hopURL(cr, hop, e.Repo, e.Ref); loc != "" {
				r := newResp([]int{307, 302, 308, 301, 303}[(hop+w.c.Hosts[cr].RedirectStatus)%5])
				r.Header.Set("Location", loc)
				return r
			}
		}
	}
	switch hs.Kind {
	case "registry":
		// every state-changing request is passed on to another endpoint with a redirect
		if t := hs.WriteRedir - 1; hs.WriteRedir > 0 && w.validHost(t) && t != i && e.Mutating() && !strings.Contains(e.RawQuery, "via=wr") {
			st := hs.WriteRedirSt
			switch st {
			case 301, 302, 303, 307, 308:
			default:
				st = 307
			}
			q := "via=wr"
			if e.RawQuery != "" {
				q = e.RawQuery + "&via=wr"
			}
			r := newResp(st)
			r.Header.Set("Location", w.c.naturalScheme(t)+"://"+w.c.Hosts[t].Name+e.Path+"?"+q)
			return r
		}
		if len(hs.Chain) > 0 && (e.Class == "blob-get" || (e.Class == "blob-head" && hs.ChainHead)) && !strings.Contains(e.RawQuery, "via=rd") {
			if rp, ok := h.Repos[e.Repo]; ok {
				if _, ok := rp.Blobs[e.Ref]; ok {
					if loc := w.hopURL(i, 0, e.Repo, e.Ref); loc != "" {
						st := hs.RedirectStatus
						switch st {
						case 301, 302, 303, 307, 308:
						default:
							st = 307
						}
						r := newResp(st)
						r.Header.Set("Location", loc)
						return r
					}
				}
			}
		}
		// blob GET answered by a redirect
		if len(hs.Chain) == 0 && w.validHost(hs.RedirectTo) && e.Class == "blob-get" && e.Method == "GET" && !strings.Contains(e.RawQuery, "via=rd") {
			if rp, ok := h.Repos[e.Repo]; ok {
				if _, ok := rp.Blobs[e.Ref]; ok {
					t := &w.c.Hosts[hs.RedirectTo]
					sch := hs.RedirectScheme
					if sch != "http" && sch != "https" {
						sch = w.c.naturalScheme(hs.RedirectTo)
					}
					loc := ""
					switch t.Kind {
					case "storage":
						loc = sch + "://" + t.Name + "/store/" + e.Repo + "/" + e.Ref
					case "registry":
						loc = sch + "://" + t.Name + "/v2/" + e.Repo + "/blobs/" + e.Ref + "?via=rd"
					}
					if loc != "" {
						st := hs.RedirectStatus
						switch st {
						case 301, 302, 303, 307, 308:
						default:
							st = 307
						}
						r := newResp(st)
						r.Header.Set("Location", loc)
						return r
					}
				}
			}
		}
		// upload session opened with an absolute Location whose scheme the server chose
		// (e.g. a registry behind a TLS terminating proxy that does not know its external scheme)
		if (hs.LocScheme == "http" || hs.LocScheme == "https") && !w.validHost(hs.Upload) && e.Method == "POST" &&
			(e.Class == "upload-post" || e.Class == "upload-mount") && !strings.Contains(e.RawQuery, "from=") {
			w.upN++
			id := fmt.Sprintf("x%d", w.upN)
			h.Repo(e.Repo)
			h.Uploads[id] = &rm.Upload{ID: id, Repo: e.Repo}
			e.Applied = true
			e.Note = "session " + id
			r := newResp(202)
			r.Header.Set("Location", hs.LocScheme+"://"+hs.Name+"/v2/"+e.Repo+"/blobs/uploads/"+id)
			r.Header.Set("Docker-Upload-UUID", id)
			r.Header.Set("Range", "0-0")
			return r
		}
		// first page of the tag list points to a page on another host
		if w.validHost(hs.LinkTo) && w.c.Hosts[hs.LinkTo].Kind == "link" && e.Class == "tags-list" && e.Method == "GET" && !strings.Contains(e.RawQuery, "last=") {
			if rp, ok := h.Repos[e.Repo]; ok && len(rp.Tags) > 1 {
				tags := make([]string, 0, len(rp.Tags))
				for t := range rp.Tags {
					tags = append(tags, t)
				}
				sort.Strings(tags)
				b, _ := json.Marshal(map[string]any{"name": e.Repo, "tags": tags[:1]})
				r := newResp(200)
				r.Header.Set("Content-Type", "application/json")
				q := url.Values{}
				q.Set("last", tags[0])
				r.Header.Set("Link", "<"+w.c.naturalScheme(hs.LinkTo)+"://"+w.c.Hosts[hs.LinkTo].Name+"/v2/"+e.Repo+"/tags/list?"+q.Encode()+`>; rel="next"`)
				r.Body = b
				return r
			}
		}
		return nil
	case "storage":
		// a second hop: this storage host redirects on to another one
		if w.validHost(hs.RedirectTo) && hs.RedirectTo != i && w.c.Hosts[hs.RedirectTo].Kind == "storage" && (e.Method == "GET" || e.Method == "HEAD") {
			r := newResp(307)
			r.Header.Set("Location", w.c.naturalScheme(hs.RedirectTo)+"://"+w.c.Hosts[hs.RedirectTo].Name+e.Path)
			return r
		}
		return nil
	case "link":
		if strings.HasSuffix(e.Path, "/tags/list") && w.validHost(hs.Origin) && w.mh[hs.Origin] != nil {
			repo := strings.TrimSuffix(strings.TrimPrefix(e.Path, "/v2/"), "/tags/list")
			tags := []string{}
			if rp, ok := w.mh[hs.Origin].Repos[repo]; ok {
				last := req.URL.Query().Get("last")
				for t := range rp.Tags {
					if t > last {
						tags = append(tags, t)
					}
				}
			}
			sort.Strings(tags)
			b, _ := json.Marshal(map[string]any{"name": repo, "tags": tags})
			r := newResp(200)
			r.Header.Set("Content-Type", "application/json")
			r.Body = b
			return r
		}
		return jsonErr(404, "NOT_FOUND", "nothing here")
	case "token":
		return jsonErr(404, "NOT_FOUND", "nothing here")
	}
	return nil
}
