package c16

import (
	"context"
	"crypto/sha256"
	"crypto/sha512"
	"encoding/hex"
	"encoding/json"
	"errors"
	"fmt"
	"os"
	"path/filepath"
	"sort"
	"strconv"
	"strings"
	"testing"

	"github.com/opencontainers/go-digest"
	"pgregory.net/rapid"

	"github.com/regclient/regclient"
	"github.com/regclient/regclient/types/descriptor"
	"github.com/regclient/regclient/types/docker/schema2"
	"github.com/regclient/regclient/types/errs"
	"github.com/regclient/regclient/types/manifest"
	"github.com/regclient/regclient/types/mediatype"
	v1 "github.com/regclient/regclient/types/oci/v1"
	"github.com/regclient/regclient/types/platform"
	"github.com/regclient/regclient/types/ref"
	"github.com/regclient/regclient/zz_verif/evid"
	"github.com/regclient/regclient/zz_verif/rcutil"
	rm "github.com/regclient/regclient/zz_verif/regmodel"
)

const prop = "C16"

func TestMain(m *testing.M) {
	code := m.Run()
	evid.Flush(code)
	os.Exit(code)
}

// Case is one input. Kind "" / "select": a request and a list of entries (all
// permutations of the list are evaluated). Kind "law": the ordering laws over
// the given entries (up to 3). Kind "string": one platform string.
type Case struct {
	Kind    string `json:"kind,omitempty"`
	Req     Plat   `json:"req"`
	Entries []Plat `json:"entries,omitempty"`
	API     bool   `json:"api,omitempty"`      // also through manifest.GetPlatformDesc (OCI index, Docker manifest list)
	APIJSON bool   `json:"api_json,omitempty"` // with API: also with the index / manifest list parsed from its JSON body
	E2E     bool   `json:"e2e,omitempty"`      // also through ManifestGet(WithManifestPlatform) on an OCI layout
	Str     string `json:"str,omitempty"`      // kind string: the text handed to Parse
	Comp    *Plat  `json:"comp,omitempty"`     // kind string: the lower-case components Str was assembled from (OS "" = architecture only)

	// How the request reaches the search: "" = Platform struct as spelled (library
	// use); "parse" = platform.Parse of the assembled string (every CLI --platform
	// flag, regsync/regbot config); "local" | "local-os" | "local-arch" =
	// platform.Parse("local" | <local OS> | <local architecture>), in which case
	// Req is replaced by platform.Local() of the machine running the check.
	ReqVia string `json:"req_via,omitempty"`
	// ReqSpell: with local-os / local-arch, the spelling handed to Parse (any
	// alias of the local OS / architecture in any case; "" = canonical).
	ReqSpell string `json:"req_spell,omitempty"`
	// Additional MatchOpt fields next to Platform (regctl artifact get --platform
	// with --filter-artifact-type / --filter-annotation / --sort-annotation /
	// --latest): "" | at | ann | ann-key | sort | sort-desc | all. Attr[i] says how
	// entry i relates to the filter.
	Filter string    `json:"filter,omitempty"`
	Attr   []EntAttr `json:"attr,omitempty"`
	E2EOpt *E2EOpt   `json:"e2e_opt,omitempty"`
}

// EntAttr are the filter-relevant attributes of one entry.
type EntAttr struct {
	AT   bool   `json:"at,omitempty"`   // artifactType is the one the filter asks for
	Ann  bool   `json:"ann,omitempty"`  // carries the annotation the filter asks for
	Sort string `json:"sort,omitempty"` // value of the sort annotation ("" = not set)
}

// E2EOpt varies how the list is stored and addressed in the end-to-end job.
type E2EOpt struct {
	Endpoint string `json:"endpoint,omitempty"` // "" = ocidir layout, "registry" = in-memory registry (regmodel)
	RefForm  string `json:"ref_form,omitempty"` // "" = tag, "digest", "tag+digest"
	Docker   bool   `json:"docker,omitempty"`   // the list is a Docker manifest list instead of an OCI index
	// Levels wraps the list in outer indexes, outermost first (1 or 2 levels give
	// a 2 or 3 level image). The expected result is the model applied level by
	// level with the ORIGINALLY requested platform.
	Levels []Level `json:"levels,omitempty"`
	Sha512 bool    `json:"sha512,omitempty"` // every second child manifest is addressed by sha512
}

// Level is one outer index: leaf images (Siblings) and, at position Pos, the
// entry that points to the next level down, labelled with platform Label
// (Nil = the entry carries no platform).
type Level struct {
	Label    Plat   `json:"label"`
	Siblings []Plat `json:"siblings,omitempty"`
	Pos      int    `json:"pos,omitempty"`
}

const (
	wantedAT  = "application/vnd.verif.wanted"
	otherAT   = "application/vnd.verif.other"
	selAnnot  = "verif.sel"
	sortAnnot = "verif.sort"
	maxN      = 12
)

func (c Case) eligible(i int) bool {
	var a EntAttr
	if i < len(c.Attr) {
		a = c.Attr[i]
	}
	switch c.Filter {
	case "at":
		return a.AT
	case "ann", "ann-key":
		return a.Ann
	case "all":
		return a.AT && a.Ann
	}
	return true
}

func (c Case) matchOpt(p *platform.Platform) descriptor.MatchOpt {
	o := descriptor.MatchOpt{Platform: p}
	switch c.Filter {
	case "at":
		o.ArtifactType = wantedAT
	case "ann":
		o.Annotations = map[string]string{selAnnot: "yes"}
	case "ann-key":
		o.Annotations = map[string]string{selAnnot: ""}
	case "sort":
		o.SortAnnotation = sortAnnot
	case "sort-desc":
		o.SortAnnotation, o.SortDesc = sortAnnot, true
	case "all":
		o.ArtifactType, o.Annotations, o.SortAnnotation, o.SortDesc = wantedAT, map[string]string{selAnnot: "yes"}, sortAnnot, true
	}
	return o
}

func toPlatform(p Plat) platform.Platform {
	return platform.Platform{OS: p.OS, Architecture: p.Arch, Variant: p.Variant, OSVersion: p.OSVer}
}

// ---------------------------------------------------------------- generators

var (
	fullU   = buildUniverse(osList, archVariants, osVers)
	famOf   = map[string][][2]string{} // canonical arch -> spellings
	osDraw  = []string{"linux", "linux", "windows", "windows", "darwin", "darwin", "freebsd", "macos"}
	verDraw = osVers
)

var absentField []Plat // entries with an absent OS and/or architecture

func init() {
	for _, av := range archVariantsDraw {
		c := refNorm(Plat{OS: "linux", Arch: av[0], Variant: av[1]})
		famOf[c.arch] = append(famOf[c.arch], av)
	}
	for _, e := range fullU {
		if !e.Nil && (e.OS == "" || e.Arch == "") {
			absentField = append(absentField, e)
		}
	}
}

// variants that exist but are left out of the exhaustive universe to keep it small
var archVariantsDraw = append(append([][2]string{}, archVariants...), [2]string{"x86_64", "v4"}, [2]string{"x86-64", "v4"},
	[2]string{"arm64", "v9"}, [2]string{"aarch64", "v9"})

func genReq(t *rapid.T) Plat {
	av := rapid.SampledFrom(archVariantsDraw).Draw(t, "req_arch")
	return Plat{OS: rapid.SampledFrom(osDraw).Draw(t, "req_os"), Arch: av[0], Variant: av[1],
		OSVer: rapid.SampledFrom(verDraw).Draw(t, "req_ver")}
}

// genEntry: mostly entries of the request's architecture family on an OS the
// request might run (so that several compatible entries of different rank are
// common), otherwise anything from the universe, sometimes no platform.
func genEntry(t *rapid.T, req Plat) Plat {
	k := rapid.IntRange(0, 19).Draw(t, "entry_kind")
	switch {
	case k == 0:
		return Plat{Nil: true}
	case k == 1:
		return rapid.SampledFrom(absentField).Draw(t, "e_absent")
	case k >= 10:
		// an entry the reference model calls runnable (or leaves open) for this request
		rb := runnableFor(refNorm(req))
		if k >= 18 && len(rb.open) > 0 {
			return rapid.SampledFrom(rb.open).Draw(t, "e_open")
		}
		if len(rb.yes) > 0 {
			return rapid.SampledFrom(rb.yes).Draw(t, "e_yes")
		}
		fallthrough
	case k < 5:
		if k == 2 && rapid.Bool().Draw(t, "e_unknown") {
			return Plat{OS: "unknown", Arch: "unknown"} // buildkit attestation entry
		}
		av := rapid.SampledFrom(archVariantsDraw).Draw(t, "e_arch")
		return Plat{OS: rapid.SampledFrom(osDraw).Draw(t, "e_os"), Arch: av[0], Variant: av[1], OSVer: rapid.SampledFrom(verDraw).Draw(t, "e_ver")}
	default:
		h := refNorm(req)
		av := rapid.SampledFrom(famOf[h.arch]).Draw(t, "e_fam")
		o := req.OS
		switch rapid.IntRange(0, 5).Draw(t, "e_osk") {
		case 0, 1:
			o = "linux"
		case 2:
			o = rapid.SampledFrom(osDraw).Draw(t, "e_os")
		}
		v := req.OSVer
		if rapid.IntRange(0, 2).Draw(t, "e_verk") > 0 {
			v = rapid.SampledFrom(verDraw).Draw(t, "e_ver")
		}
		return Plat{OS: o, Arch: av[0], Variant: av[1], OSVer: v}
	}
}

type runnable struct{ yes, open []Plat }

var runnableCache = map[canon]*runnable{}

func runnableFor(h canon) *runnable {
	if r, ok := runnableCache[h]; ok {
		return r
	}
	r := &runnable{}
	for _, e := range fullU {
		switch rc, _ := refCompatible(h, refNorm(e)); rc {
		case yes:
			r.yes = append(r.yes, e)
		case unspecified:
			r.open = append(r.open, e)
		}
	}
	runnableCache[h] = r
	return r
}

func randCase(t *rapid.T, s string) string {
	switch rapid.IntRange(0, 3).Draw(t, "casing") {
	case 0:
		return s
	case 1:
		return strings.ToUpper(s)
	}
	b := []byte(s)
	for i := range b {
		if rapid.Bool().Draw(t, "up") {
			b[i] = strings.ToUpper(string(b[i]))[0]
		}
	}
	return string(b)
}

var osverKeys = []string{"osver", "osversion", "OSVER", "OsVersion"}

func assemble(comp Plat, casing func(string) string, key string) string {
	s := comp.Arch
	if comp.OS != "" {
		s = comp.OS + "/" + comp.Arch
	}
	if comp.Variant != "" {
		s += "/" + comp.Variant
	}
	s = casing(s)
	if comp.OSVer != "" {
		s += "," + key + "=" + comp.OSVer
	}
	return s
}

func genString(t *rapid.T) Case {
	comp := genReq(t)
	key := rapid.SampledFrom(osverKeys).Draw(t, "key")
	switch rapid.IntRange(0, 9).Draw(t, "short_form") {
	case 0: // architecture only, biased to spellings of the local architecture
		comp.OS, comp.Variant = "", ""
		if rapid.Bool().Draw(t, "local_arch") {
			comp.Arch = rapid.SampledFrom(spellingsOfLocal("local-arch")).Draw(t, "arch_spelling")
		}
		return Case{Kind: "string", Comp: &comp, Str: assembleShort(comp, func(s string) string { return randCase(t, s) }, key)}
	case 1: // OS only
		comp.Arch, comp.Variant = "", ""
		if rapid.IntRange(0, 5).Draw(t, "os_local") == 0 {
			comp.OS = "local"
		}
		return Case{Kind: "string", Comp: &comp, Str: assembleShort(comp, func(s string) string { return randCase(t, s) }, key)}
	}
	return Case{Kind: "string", Comp: &comp, Str: assemble(comp, func(s string) string { return randCase(t, s) }, key)}
}

func gen(t *rapid.T) Case {
	switch k := rapid.IntRange(0, 19).Draw(t, "kind"); {
	case k < 2:
		return genString(t)
	case k < 5:
		req := genReq(t)
		n := rapid.IntRange(1, 3).Draw(t, "n")
		c := Case{Kind: "law", Req: req}
		for i := 0; i < n; i++ {
			c.Entries = append(c.Entries, genEntry(t, req))
		}
		return c
	}
	return genSelect(t)
}

func localPlat() Plat {
	lp := platform.Local()
	return Plat{OS: lp.OS, Arch: lp.Architecture, Variant: lp.Variant, OSVer: lp.OSVersion}
}

// architecture spellings Parse documents as usable without an OS
var knownShortArch = map[string]bool{}

func init() {
	for _, av := range archVariants {
		knownShortArch[av[0]] = true
	}
}

// spellingsOfLocal: every spelling of the local OS / architecture.
func spellingsOfLocal(via string) []string {
	lp := platform.Local()
	var out []string
	if via == "local-os" {
		out = []string{lp.OS}
		if lp.OS == "darwin" {
			out = append(out, "macos")
		}
		return out
	}
	seen := map[string]bool{}
	for _, av := range archVariants {
		if !seen[av[0]] && archAlias[av[0]] == lp.Architecture || (av[0] == lp.Architecture && !seen[av[0]]) {
			seen[av[0]] = true
			if av[0] != "armhf" && av[0] != "armel" { // these carry a variant of their own
				out = append(out, av[0])
			}
		}
	}
	if len(out) == 0 {
		out = []string{lp.Architecture}
	}
	return out
}

var filterDraw = []string{"at", "ann", "ann-key", "sort", "sort-desc", "all"}

// genSelect draws a selection case: the request (as a struct, through Parse, or
// the local platform through a short string), 0-4 entries (sometimes 5-10), and
// sometimes additional MatchOpt filters.
func genSelect(t *rapid.T) Case {
	c := Case{API: true, APIJSON: rapid.IntRange(0, 3).Draw(t, "api_json") == 0, Entries: []Plat{}}
	switch k := rapid.IntRange(0, 19).Draw(t, "req_via"); {
	case k < 2:
		c.Req, c.ReqVia = localPlat(), rapid.SampledFrom([]string{"local", "local-os", "local-arch", "local-arch"}).Draw(t, "local_form")
		if c.ReqVia != "local" {
			if sp := randCase(t, rapid.SampledFrom(spellingsOfLocal(c.ReqVia)).Draw(t, "local_spelling")); sp != map[string]string{"local-os": c.Req.OS, "local-arch": c.Req.Arch}[c.ReqVia] {
				c.ReqSpell = sp
			}
		}
	case k < 8:
		c.Req, c.ReqVia = genReq(t), "parse"
	default:
		c.Req = genReq(t)
	}
	n := rapid.IntRange(0, 4).Draw(t, "n")
	if rapid.IntRange(0, 11).Draw(t, "long") == 0 {
		n = rapid.IntRange(5, 10).Draw(t, "n_long")
	}
	for i := 0; i < n; i++ {
		c.Entries = append(c.Entries, genEntry(t, c.Req))
	}
	if rapid.IntRange(0, 5).Draw(t, "filtered") == 0 {
		c.Filter = rapid.SampledFrom(filterDraw).Draw(t, "filter")
		for i := 0; i < n; i++ {
			c.Attr = append(c.Attr, EntAttr{AT: rapid.IntRange(0, 3).Draw(t, "at") > 0, Ann: rapid.IntRange(0, 3).Draw(t, "ann") > 0,
				Sort: rapid.SampledFrom([]string{"", "2024-01-01T00:00:00Z", "2024-06-01T00:00:00Z", "2025-01-01T00:00:00Z"}).Draw(t, "sortv")})
		}
	}
	return c
}

// --------------------------------------------------------------------- check

var perms [5][][]int

func init() {
	for n := 0; n <= 4; n++ {
		idx := make([]int, n)
		for i := range idx {
			idx[i] = i
		}
		var rec func(k int)
		rec = func(k int) {
			if k == n {
				perms[n] = append(perms[n], append([]int(nil), idx...))
				return
			}
			for i := k; i < n; i++ {
				idx[k], idx[i] = idx[i], idx[k]
				rec(k + 1)
				idx[k], idx[i] = idx[i], idx[k]
			}
		}
		rec(0)
		// identity first
		sort.Slice(perms[n], func(a, b int) bool {
			for i := range perms[n][a] {
				if perms[n][a][i] != perms[n][b][i] {
					return perms[n][a][i] < perms[n][b][i]
				}
			}
			return false
		})
	}
}

var posDigest [maxN]digest.Digest

func init() {
	for i := range posDigest {
		posDigest[i] = digest.Digest("sha256:" + strings.Repeat("0", 62) + fmt.Sprintf("%02d", i+1))
	}
}

type entInfo struct {
	p     Plat
	c     canon
	rc    tri
	why   string
	exact bool
	elig  bool // passes the additional MatchOpt filters of the case
}

var (
	kLabel     = [6]string{"entries:0", "entries:1", "entries:2", "entries:3", "entries:4", "entries:5-10"}
	yesLabel   = [4]string{"runnable:0", "runnable:1", "runnable:2", "runnable:3+"}
	reqOSLabel = map[string]string{"linux": "req-os:linux", "windows": "req-os:windows", "darwin": "req-os:darwin", "freebsd": "req-os:freebsd"}
)

func multisetKey(req Plat, es []Plat) string {
	ks := make([]string, len(es))
	for i, e := range es {
		ks[i] = e.key()
	}
	sort.Strings(ks)
	return req.key() + "|" + strings.Join(ks, ";")
}

func descList(c *Case, ents []entInfo, order []int, plats []platform.Platform, dl []descriptor.Descriptor) []descriptor.Descriptor {
	for k, idx := range order {
		d := descriptor.Descriptor{MediaType: mediatype.OCI1Manifest, Digest: posDigest[idx], Size: int64(100 + idx)}
		if !ents[idx].p.Nil {
			plats[k] = toPlatform(ents[idx].p)
			d.Platform = &plats[k]
		}
		if c.Filter != "" {
			var a EntAttr
			if idx < len(c.Attr) {
				a = c.Attr[idx]
			}
			d.ArtifactType = otherAT
			if a.AT {
				d.ArtifactType = wantedAT
			}
			if a.Ann || a.Sort != "" {
				d.Annotations = map[string]string{}
				if a.Ann {
					d.Annotations[selAnnot] = "yes"
				}
				if a.Sort != "" {
					d.Annotations[sortAnnot] = a.Sort
				}
			}
		}
		dl[k] = d
	}
	if len(order) == 0 {
		return nil
	}
	return dl[:len(order)]
}

// ordersFor: every permutation up to 4 entries; beyond that the identity, the
// reverse and every rotation.
func ordersFor(n int) [][]int {
	if n <= 4 {
		return perms[n]
	}
	var out [][]int
	for r := 0; r < n; r++ {
		o := make([]int, n)
		for i := range o {
			o[i] = (i + r) % n
		}
		out = append(out, o)
	}
	rev := make([]int, n)
	for i := range rev {
		rev[i] = n - 1 - i
	}
	return append(out, rev)
}

func whichEntry(d digest.Digest, n int) int {
	for i := 0; i < n; i++ {
		if posDigest[i] == d {
			return i
		}
	}
	return -2
}

// judge applies (a)-(d) to one outcome: chosen is the index of the chosen
// entry, or -1 for NotFound.
func judge(via string, c Case, h canon, comp interface {
	Better(target, prev platform.Platform) bool
}, ents []entInfo, order []int, chosen int, err error) *evid.Violation {
	show := func() string {
		var sb strings.Builder
		for k, idx := range order {
			if k > 0 {
				sb.WriteString(", ")
			}
			fmt.Fprintf(&sb, "[%d]%s(runnable=%s)", idx, ents[idx].c.show(), ents[idx].rc)
		}
		return fmt.Sprintf("request %s, list in this order: %s", h.show(), sb.String())
	}
	if err != nil {
		if !errors.Is(err, errs.ErrNotFound) {
			return evid.V("search-error-other-than-notfound", "%s: %v; %s", via, err, show())
		}
		for _, e := range ents {
			if e.rc == yes && e.elig {
				return evid.V("runnable-entry-not-found:"+h.os+"-host-"+e.c.os+"-entry", "%s: NotFound although entry %s is runnable; %s", via, e.c.show(), show())
			}
		}
		return nil
	}
	if chosen < 0 || chosen >= len(ents) {
		return evid.V("chosen-entry-not-in-list", "%s: returned a descriptor that is not in the list; %s", via, show())
	}
	ch := ents[chosen]
	if !ch.elig {
		return evid.V("chosen-entry-fails-filter", "%s: chose [%d]%s which does not pass the %q filter; %s", via, chosen, ch.c.show(), c.Filter, show())
	}
	if ch.rc == no {
		return evid.V("chosen-entry-not-runnable:"+ch.why, "%s: chose [%d]%s which the request cannot run (%s); %s", via, chosen, ch.c.show(), ch.why, show())
	}
	for i, e := range ents {
		if i == chosen || e.p.Nil || !e.elig {
			continue
		}
		if e.exact && !ch.exact {
			return evid.V("exact-match-passed-over", "%s: chose [%d]%s although [%d] is exactly the requested platform; %s", via, chosen, ch.c.show(), i, show())
		}
		if comp.Better(toPlatform(e.p), toPlatform(ch.p)) {
			return evid.V("better-entry-passed-over-own-ordering", "%s: chose [%d]%s although Better([%d]%s, chosen) is true; %s", via, chosen, ch.c.show(), i, e.c.show(), show())
		}
		if e.rc == yes {
			if dom, why := refDominates(h, e.c, ch.c); dom {
				return evid.V("better-entry-passed-over:"+why, "%s: chose [%d]%s although runnable [%d]%s is preferable (%s); %s", via, chosen, ch.c.show(), i, e.c.show(), why, show())
			}
		}
	}
	return nil
}

func check(c Case, ev *evid.Collector) *evid.Violation {
	switch c.Kind {
	case "law":
		return checkLawCase(c, ev)
	case "string":
		return checkString(c, ev)
	}
	// the request as the code receives it
	var hp platform.Platform
	viaLabel := "" // struct: the bulk, not labelled
	switch c.ReqVia {
	case "":
		hp = toPlatform(c.Req)
	case "parse":
		viaLabel = "req-via:parse"
		if c.Req.Nil || c.Req.OS == "" || c.Req.Arch == "" {
			ev.Case(false, "", "outside-domain")
			return nil
		}
		s := assemble(c.Req, func(s string) string { return s }, "osver")
		var err error
		if hp, err = platform.Parse(s); err != nil {
			ev.Case(false, "", viaLabel)
			return evid.V("parse-rejects-universe-string", "Parse(%q): %v", s, err)
		}
	case "local", "local-os", "local-arch":
		viaLabel = "req-via:" + c.ReqVia
		c.Req = localPlat()
		s := map[string]string{"local": "local", "local-os": c.Req.OS, "local-arch": c.Req.Arch}[c.ReqVia]
		if c.ReqSpell != "" && c.ReqVia != "local" {
			// must be a spelling of the same OS / architecture
			same := false
			if c.ReqVia == "local-os" {
				same = canonicalShortForm(Plat{OS: c.ReqSpell}) == c.Req.OS
			} else {
				same = refNorm(Plat{OS: "x", Arch: c.ReqSpell}).arch == c.Req.Arch && knownShortArch[strings.ToLower(c.ReqSpell)]
			}
			if !same {
				ev.Case(false, "", "outside-domain")
				return nil
			}
			s = c.ReqSpell
			viaLabel += "-alias-spelling"
		}
		var err error
		if hp, err = platform.Parse(s); err != nil {
			ev.Case(false, "", viaLabel)
			return evid.V("parse-rejects-universe-string", "Parse(%q): %v", s, err)
		}
		if lp := platform.Local(); hp.OS != lp.OS || hp.Architecture != lp.Architecture || hp.Variant != lp.Variant || hp.OSVersion != lp.OSVersion {
			ev.Case(false, "", viaLabel)
			return evid.V("parse-short-form-not-local", "Parse(%q) = %+v, but the local platform is %+v", s, hp, lp)
		}
	default:
		ev.Case(false, "", "outside-domain")
		return nil
	}
	h := refNorm(c.Req)
	n := len(c.Entries)
	if !h.ok || h.arch == "" || h.os == "" || n > maxN {
		ev.Case(false, "", "outside-domain")
		return nil
	}
	var entsA [4]entInfo
	var platsA [4]platform.Platform
	var dlA [4]descriptor.Descriptor
	ents, plats, dlS := entsA[:], platsA[:], dlA[:]
	if n > 4 {
		ents, plats, dlS = make([]entInfo, n), make([]platform.Platform, n), make([]descriptor.Descriptor, n)
	}
	ents = ents[:n]
	nYes, nUns, anyExact, hasNil, distinctYes := 0, 0, false, false, false
	var firstYes canon
	for i, p := range c.Entries {
		e := entInfo{p: p, c: refNorm(p), elig: c.Filter == "" || c.eligible(i)}
		e.rc, e.why = refCompatible(h, e.c)
		e.exact = refExact(h, e.c)
		if !e.elig {
			ents[i] = e
			hasNil = hasNil || p.Nil
			continue
		}
		switch e.rc {
		case yes:
			if nYes == 0 {
				firstYes = e.c
			} else if e.c != firstYes {
				distinctYes = true
			}
			nYes++
		case unspecified:
			nUns++
		}
		anyExact = anyExact || e.exact
		hasNil = hasNil || p.Nil
		ents[i] = e
	}
	nt := distinctYes
	key := ""
	if nt {
		key = multisetKey(c.Req, c.Entries)
	}
	l1, l2, l3 := "", "", ""
	if anyExact {
		l1 = "has-exact-entry"
	}
	if nUns > 0 {
		l2 = "has-entry-docs-leave-open"
	}
	if hasNil {
		l3 = "has-entry-without-platform"
	}
	y := nYes
	if y > 3 {
		y = 3
	}
	kl := n
	if kl > 5 {
		kl = 5
	}
	l4 := ""
	if c.Filter != "" {
		l4 = "filter:" + c.Filter
	}
	ev.Case(nt, key, kLabel[kl], yesLabel[y], reqOSLabel[h.os], l1, l2, l3, l4, viaLabel)
	ev.Sample(c)

	comp := platform.NewCompare(hp)
	firstChosen := -1
	orders := ordersFor(n)
	for pi, order := range orders {
		dl := descList(&c, ents, order, plats, dlS)
		req := hp
		got, err := descriptor.DescriptorListSearch(dl, c.matchOpt(&req))
		chosen := -1
		if err == nil {
			chosen = whichEntry(got.Digest, n)
		}
		if v := judge("DescriptorListSearch", c, h, comp, ents, order, chosen, err); v != nil {
			return v
		}
		if pi == 0 {
			firstChosen = chosen
			continue
		}
		// (e) independent of the listing order (entries with the same normal form are interchangeable)
		if (chosen < 0) != (firstChosen < 0) || (chosen >= 0 && ents[chosen].c != ents[firstChosen].c) {
			a, b := "NotFound", "NotFound"
			if firstChosen >= 0 {
				a = ents[firstChosen].c.show()
			}
			if chosen >= 0 {
				b = ents[chosen].c.show()
			}
			return evid.V("choice-depends-on-list-order", "request %s: entries listed in order %v give %s, in order %v give %s; entries: %s",
				h.show(), orders[0], a, order, b, multisetKey(c.Req, c.Entries))
		}
	}
	if c.Filter != "" {
		return nil // GetPlatformDesc and ManifestGet take no filter
	}
	if c.API {
		if v := checkAPI(c, h, hp, comp, ents, firstChosen); v != nil {
			return v
		}
	}
	if c.E2E {
		if v := checkE2E(c, h, hp, ents, firstChosen); v != nil {
			return v
		}
	}
	return nil
}

// checkAPI: the same list behind manifest.GetPlatformDesc (package function and
// the deprecated method) for an OCI index and a Docker manifest list, each built
// from the Go struct and parsed from its JSON body.
func checkAPI(c Case, h canon, hp platform.Platform, comp interface {
	Better(target, prev platform.Platform) bool
}, ents []entInfo, want int) *evid.Violation {
	n := len(ents)
	order := ordersFor(n)[0]
	dl := append([]descriptor.Descriptor{}, descList(&c, ents, order, make([]platform.Platform, n), make([]descriptor.Descriptor, n))...)
	kinds := []string{"oci-index", "docker-manifest-list", "oci-index-json", "docker-manifest-list-json"}
	if !c.APIJSON {
		kinds = kinds[:2]
	}
	for _, kind := range kinds {
		var m manifest.Manifest
		var err error
		var orig any = v1.Index{Versioned: v1.IndexSchemaVersion, MediaType: mediatype.OCI1ManifestList, Manifests: dl}
		mt := mediatype.OCI1ManifestList
		if strings.HasPrefix(kind, "docker") {
			orig, mt = schema2.ManifestList{Versioned: schema2.ManifestListSchemaVersion, Manifests: dl}, mediatype.Docker2ManifestList
		}
		if strings.HasSuffix(kind, "-json") {
			raw, jerr := json.Marshal(orig)
			if jerr != nil {
				panic("harness: " + jerr.Error())
			}
			m, err = manifest.New(manifest.WithRaw(raw), manifest.WithDesc(descriptor.Descriptor{MediaType: mt}))
		} else {
			m, err = manifest.New(manifest.WithOrig(orig))
		}
		if err != nil {
			panic(fmt.Sprintf("harness: cannot build %s: %v", kind, err))
		}
		for _, form := range []string{"func", "method"} {
			req := hp
			var d *descriptor.Descriptor
			if form == "func" {
				d, err = manifest.GetPlatformDesc(m, &req)
			} else {
				d, err = m.GetPlatformDesc(&req) //nolint:staticcheck // deprecated form is still reachable by users
			}
			chosen := -1
			if err == nil && d != nil {
				chosen = whichEntry(d.Digest, n)
			}
			via := "GetPlatformDesc(" + kind + "," + form + ")"
			if v := judge(via, c, h, comp, ents, order, chosen, err); v != nil {
				return v
			}
			if chosen != want {
				return evid.V("getplatformdesc-differs-from-list-search", "%s chose entry %d, DescriptorListSearch chose %d for request %s entries %s",
					via, chosen, want, h.show(), multisetKey(c.Req, c.Entries))
			}
		}
	}
	return nil
}

var rcShared *regclient.RegClient

func dig(alg string, b []byte) digest.Digest {
	if alg == "sha512" {
		s := sha512.Sum512(b)
		return digest.Digest("sha512:" + hex.EncodeToString(s[:]))
	}
	s := sha256.Sum256(b)
	return digest.Digest("sha256:" + hex.EncodeToString(s[:]))
}

const e2eHost = "c16.example.test"

// checkE2E stores the list (index -> one image manifest per entry) in an OCI
// layout or an in-memory registry and resolves it with ManifestGet and
// ManifestHead with WithManifestPlatform.
func checkE2E(c Case, h canon, hp platform.Platform, ents []entInfo, want int) *evid.Violation {
	opt := E2EOpt{}
	if c.E2EOpt != nil {
		opt = *c.E2EOpt
	}
	must := func(err error) {
		if err != nil {
			panic("harness: " + err.Error())
		}
	}
	type stored struct {
		mt   string
		body []byte
	}
	store := map[digest.Digest]stored{}
	put := func(alg, mt string, b []byte) digest.Digest {
		d := dig(alg, b)
		store[d] = stored{mt, b}
		return d
	}
	cfg := []byte("{}")
	cfgD := dig("sha256", cfg)
	leaf := func(name, alg string) (digest.Digest, int) {
		mb, _ := json.Marshal(map[string]any{
			"schemaVersion": 2, "mediaType": mediatype.OCI1Manifest,
			"config":      map[string]any{"mediaType": mediatype.OCI1ImageConfig, "digest": cfgD.String(), "size": len(cfg)},
			"layers":      []any{},
			"annotations": map[string]string{"verif.entry": name},
		})
		return put(alg, mediatype.OCI1Manifest, mb), len(mb)
	}
	leafDesc := func(name, alg string, p Plat) descriptor.Descriptor {
		dg, sz := leaf(name, alg)
		d := descriptor.Descriptor{MediaType: mediatype.OCI1Manifest, Digest: dg, Size: int64(sz)}
		if !p.Nil {
			pp := toPlatform(p)
			d.Platform = &pp
		}
		return d
	}
	child := make([]digest.Digest, len(ents))
	dl := []descriptor.Descriptor{}
	for i, e := range ents {
		alg := "sha256"
		if opt.Sha512 && i%2 == 1 {
			alg = "sha512"
		}
		d := leafDesc(strconv.Itoa(i), alg, e.p)
		child[i] = d.Digest
		dl = append(dl, d)
	}
	var listOrig any = v1.Index{Versioned: v1.IndexSchemaVersion, MediaType: mediatype.OCI1ManifestList, Manifests: dl}
	listMT := mediatype.OCI1ManifestList
	if opt.Docker {
		listOrig, listMT = schema2.ManifestList{Versioned: schema2.ManifestListSchemaVersion, Manifests: dl}, mediatype.Docker2ManifestList
	}
	lb, err := json.Marshal(listOrig)
	must(err)
	topD, topMT, topLen := put("sha256", listMT, lb), listMT, len(lb)
	// outer levels, built from the innermost wrapper outwards
	levelDL := make([][]descriptor.Descriptor, len(opt.Levels))
	levelNested := make([]int, len(opt.Levels))
	for k := len(opt.Levels) - 1; k >= 0; k-- {
		lv := opt.Levels[k]
		pos := lv.Pos
		if pos < 0 || pos > len(lv.Siblings) {
			pos = len(lv.Siblings)
		}
		nd := descriptor.Descriptor{MediaType: topMT, Digest: topD, Size: int64(topLen)}
		if !lv.Label.Nil {
			lp := toPlatform(lv.Label)
			nd.Platform = &lp
		}
		var odl []descriptor.Descriptor
		for j, sp := range lv.Siblings {
			if j == pos {
				odl = append(odl, nd)
			}
			odl = append(odl, leafDesc(fmt.Sprintf("L%d-%d", k, j), "sha256", sp))
		}
		if pos == len(lv.Siblings) {
			odl = append(odl, nd)
		}
		levelDL[k], levelNested[k] = odl, pos
		ob, err := json.Marshal(v1.Index{Versioned: v1.IndexSchemaVersion, MediaType: mediatype.OCI1ManifestList, Manifests: odl})
		must(err)
		topD, topMT, topLen = put("sha256", mediatype.OCI1ManifestList, ob), mediatype.OCI1ManifestList, len(ob)
	}
	// expected final manifest: the model applied level by level, every level
	// searched for the originally requested platform
	wantD := digest.Digest("") // "" = NotFound
	if want >= 0 {
		wantD = child[want]
	}
	comp := platform.NewCompare(hp)
	descend := true
	for k := 0; k < len(opt.Levels) && descend; k++ {
		odl := levelDL[k]
		lents := make([]entInfo, len(odl))
		order := make([]int, len(odl))
		for j := range odl {
			order[j] = j
			var p Plat
			switch {
			case j == levelNested[k]:
				p = opt.Levels[k].Label
			case j < levelNested[k]:
				p = opt.Levels[k].Siblings[j]
			default:
				p = opt.Levels[k].Siblings[j-1]
			}
			e := entInfo{p: p, c: refNorm(p), elig: true}
			e.rc, e.why = refCompatible(h, e.c)
			e.exact = refExact(h, e.c)
			lents[j] = e
		}
		req := hp
		got, serr := descriptor.DescriptorListSearch(odl, descriptor.MatchOpt{Platform: &req})
		chosen := -1
		if serr == nil {
			chosen = -2
			for j := range odl {
				if odl[j].Digest == got.Digest {
					chosen = j
					break
				}
			}
		}
		if v := judge(fmt.Sprintf("DescriptorListSearch(outer level %d)", k), c, h, comp, lents, order, chosen, serr); v != nil {
			return v
		}
		switch {
		case chosen < 0:
			wantD, descend = "", false
		case chosen != levelNested[k]:
			wantD, descend = odl[chosen].Digest, false
		}
	}

	var rc *regclient.RegClient
	var base string
	if opt.Endpoint == "registry" {
		m := rm.New()
		repo := m.AddHost(e2eHost).Repo("r")
		for d, st := range store {
			repo.Manifests[d.String()] = &rm.Manifest{MediaType: st.mt, Body: st.body}
		}
		repo.Tags["t"] = topD.String()
		rc = rcutil.New(m, rcutil.Conf{})
		base = e2eHost + "/r"
	} else {
		dir, err := os.MkdirTemp("", "c16-layout-")
		must(err)
		defer os.RemoveAll(dir)
		store[cfgD] = stored{mediatype.OCI1ImageConfig, cfg}
		for d, st := range store {
			bd := filepath.Join(dir, "blobs", d.Algorithm().String())
			must(os.MkdirAll(bd, 0o755))
			must(os.WriteFile(filepath.Join(bd, d.Encoded()), st.body, 0o644))
		}
		top, _ := json.Marshal(map[string]any{"schemaVersion": 2, "manifests": []any{map[string]any{
			"mediaType": topMT, "digest": topD.String(), "size": topLen,
			"annotations": map[string]string{"org.opencontainers.image.ref.name": "t"}}}})
		must(os.WriteFile(filepath.Join(dir, "index.json"), top, 0o644))
		must(os.WriteFile(filepath.Join(dir, "oci-layout"), []byte(`{"imageLayoutVersion":"1.0.0"}`), 0o644))
		if rcShared == nil {
			rcShared = regclient.New()
		}
		rc = rcShared
		base = "ocidir://" + dir
	}
	rs := base + ":t"
	switch opt.RefForm {
	case "digest":
		rs = base + "@" + topD.String()
	case "tag+digest":
		rs = base + ":t@" + topD.String()
	}
	r, err := ref.New(rs)
	must(err)
	ctx := context.Background()
	// sanity of the harness: the list itself must be readable
	if _, err := rc.ManifestGet(ctx, r); err != nil {
		panic("harness: stored list unreadable: " + err.Error())
	}
	for _, op := range []string{"ManifestGet", "ManifestHead"} {
		var m manifest.Manifest
		if op == "ManifestGet" {
			m, err = rc.ManifestGet(ctx, r, regclient.WithManifestPlatform(hp))
		} else {
			m, err = rc.ManifestHead(ctx, r, regclient.WithManifestPlatform(hp))
		}
		gotD := digest.Digest("")
		if err == nil {
			gotD = m.GetDescriptor().Digest
		} else if !errors.Is(err, errs.ErrNotFound) {
			return evid.V("manifestget-error-other-than-notfound", "%s(WithManifestPlatform(%s)) on %s: %v; entries %s", op, h.show(), opt.show(), err, multisetKey(c.Req, c.Entries))
		}
		if gotD != wantD {
			name := func(d digest.Digest) string {
				if d == "" {
					return "NotFound"
				}
				if st, ok := store[d]; ok {
					var a struct {
						Annotations map[string]string `json:"annotations"`
					}
					_ = json.Unmarshal(st.body, &a)
					if e, ok := a.Annotations["verif.entry"]; ok {
						return "image " + e
					}
					return "an index (" + st.mt + ")"
				}
				return "unlisted " + d.String()
			}
			sig := "manifestget-differs-from-list-search"
			if len(opt.Levels) > 0 {
				sig = "nested-index-not-resolved-for-requested-platform"
			}
			return evid.V(sig, "%s(WithManifestPlatform(%s)) on %s resolved to %s; searching every level for the requested platform gives %s (image N = inner entry N, image Lk-j = sibling j of outer level k); inner entries in order: %s",
				op, h.show(), opt.show(), name(gotD), name(wantD), entriesInOrder(ents))
		}
	}
	return nil
}

func (o E2EOpt) show() string {
	b, _ := json.Marshal(o)
	return string(b)
}

func entriesInOrder(ents []entInfo) string {
	s := make([]string, len(ents))
	for i, e := range ents {
		s[i] = e.c.show()
	}
	return strings.Join(s, ", ")
}

// ---------------------------------------------------------------------- laws

// lawViolation checks irreflexivity, asymmetry and transitivity of Better for
// one request over the given platforms (every one compatible with the request
// according to the code itself).
func lawViolation(hs string, comp interface {
	Better(target, prev platform.Platform) bool
}, ps []platform.Platform, triples bool) (*evid.Violation, []int) {
	n := len(ps)
	b := make([]bool, n*n)
	for i := 0; i < n; i++ {
		for j := 0; j < n; j++ {
			b[i*n+j] = comp.Better(ps[i], ps[j])
		}
	}
	for i := 0; i < n; i++ {
		if b[i*n+i] {
			return evid.V("better-not-irreflexive", "request %s: Better(a, a) is true for a=%v", hs, ps[i]), []int{i}
		}
		for j := i + 1; j < n; j++ {
			if b[i*n+j] && b[j*n+i] {
				return evid.V("better-not-asymmetric", "request %s: Better(a,b) and Better(b,a) both true for a=%v b=%v", hs, ps[i], ps[j]), []int{i, j}
			}
		}
	}
	if !triples {
		return nil, nil
	}
	for i := 0; i < n; i++ {
		for j := 0; j < n; j++ {
			if !b[i*n+j] {
				continue
			}
			for k := 0; k < n; k++ {
				if b[j*n+k] && !b[i*n+k] {
					return evid.V("better-not-transitive", "request %s: Better(a,b) and Better(b,c) but not Better(a,c) for a=%v b=%v c=%v", hs, ps[i], ps[j], ps[k]), []int{i, j, k}
				}
			}
		}
	}
	return nil, nil
}

func checkLawCase(c Case, ev *evid.Collector) *evid.Violation {
	h := refNorm(c.Req)
	if !h.ok || h.arch == "" || h.os == "" {
		ev.Case(false, "", "outside-domain")
		return nil
	}
	hp := toPlatform(c.Req)
	var ps []platform.Platform
	for _, e := range c.Entries {
		if e.Nil {
			continue
		}
		p := toPlatform(e)
		if platform.Compatible(hp, p) {
			ps = append(ps, p)
		}
	}
	ev.Case(false, "", "kind:law", "law-compatible-entries:"+strconv.Itoa(len(ps)))
	ev.Sample(c)
	v, _ := lawViolation(h.show(), platform.NewCompare(hp), ps, true)
	return v
}

// ------------------------------------------------------------------- strings

func checkString(cs Case, ev *evid.Collector) *evid.Violation {
	if cs.Comp == nil || cs.Comp.Nil || (cs.Comp.Arch == "" && cs.Comp.OS == "") {
		ev.Case(false, "", "outside-domain")
		return nil
	}
	if cs.Comp.Arch == "" || cs.Comp.OS == "" {
		if cs.Comp.Variant != "" {
			ev.Case(false, "", "outside-domain")
			return nil
		}
		return checkShortForm(cs, ev)
	}
	c := struct {
		Str  string
		Comp Plat
	}{cs.Str, *cs.Comp}
	archOnly := c.Comp.OS == ""
	cl := "string:os/arch"
	if archOnly {
		cl = "string:arch-only"
	} else if c.Comp.Variant != "" {
		cl = "string:os/arch/variant"
	}
	cl2 := ""
	if c.Comp.OSVer != "" {
		cl2 = "string:with-osver-arg"
	}
	ev.Case(false, "", "kind:string", cl, cl2)
	ev.Sample(cs)
	want := refNorm(c.Comp)
	localOS := c.Comp.OS == "local" // "local/<arch>": the OS of the machine running the check
	if localOS {
		want.os = platform.Local().OS
	}
	p, err := platform.Parse(c.Str)
	if err != nil {
		return evid.V("parse-rejects-universe-string", "Parse(%q): %v", c.Str, err)
	}
	if p.Architecture != want.arch {
		return evid.V("alias-not-canonical:architecture", "Parse(%q).Architecture = %q, documented canonical value %q", c.Str, p.Architecture, want.arch)
	}
	if !archOnly {
		if p.OS != want.os {
			return evid.V("alias-not-canonical:os", "Parse(%q).OS = %q, want %q", c.Str, p.OS, want.os)
		}
		if p.Variant != canonVariant(want) {
			return evid.V("alias-not-canonical:variant", "Parse(%q) = %s/%s/%s, documented canonical form %s", c.Str, p.OS, p.Architecture, p.Variant, canonString(want))
		}
		if p.OSVersion != want.osver {
			return evid.V("parse-osversion-arg-lost", "Parse(%q).OSVersion = %q, want %q", c.Str, p.OSVersion, want.osver)
		}
	}
	s1 := p.String()
	if !archOnly && s1 != canonString(want) {
		return evid.V("string-not-canonical", "Parse(%q).String() = %q, want %q", c.Str, s1, canonString(want))
	}
	p1, err := platform.Parse(s1)
	if err != nil {
		return evid.V("normal-form-does-not-reparse", "Parse(%q).String() = %q which Parse rejects: %v", c.Str, s1, err)
	}
	if p1.OS != p.OS || p1.Architecture != p.Architecture || p1.Variant != p.Variant {
		return evid.V("normal-form-reparses-differently", "Parse(%q) = %+v prints as %q which parses to %+v", c.Str, p, s1, p1)
	}
	if s2 := p1.String(); s2 != s1 {
		return evid.V("string-parse-not-fixed-point", "Parse(%q): %q re-parses and prints as %q", c.Str, s1, s2)
	}
	if !archOnly && !localOS {
		// printing the platform as spelled (not yet normalised) gives the same normal form
		if s3 := toPlatform(c.Comp).String(); s3 != s1 {
			return evid.V("string-of-alias-not-canonical", "Platform%+v.String() = %q, Parse(%q).String() = %q", c.Comp, s3, c.Str, s1)
		}
	}
	return nil
}

// osRuns: the documented OS family rule (Docker Desktop runs Linux images).
func osRuns(host, target string) bool {
	switch host {
	case "windows", "darwin":
		return target == host || target == "linux"
	}
	return target == host
}

// shortFormWant is what the documentation (TestPlatformParse goals, regctl
// "--platform local") says a short platform string means on this machine: an
// OS-only string is that OS with the local architecture and variant when the
// local OS can run it; an architecture-only string is the local OS with that
// architecture and, when it is the local architecture, the local variant. Every
// spelling of the same OS / architecture (aliases, any case) means the same.
// variantKnown is false where the documentation leaves the variant open.
func shortFormWant(comp Plat) (want platform.Platform, variantKnown bool) {
	lp := platform.Local()
	expands := func(o string) bool { return o == "linux" || o == "darwin" || o == "windows" }
	if comp.OS == "" { // architecture only
		cn := refNorm(Plat{OS: lp.OS, Arch: comp.Arch})
		want = platform.Platform{OS: lp.OS, Architecture: cn.arch, Variant: canonVariant(cn), OSVersion: comp.OSVer}
		if cn.arch == lp.Architecture && expands(lp.OS) {
			if cn.arch == "arm" {
				return want, false // arm short forms carry a default variant of their own
			}
			want.Variant = lp.Variant
		}
		return want, true
	}
	// OS only
	o := strings.ToLower(comp.OS)
	if o == "macos" {
		o = "darwin"
	}
	if o == "local" {
		o = lp.OS
	}
	want = platform.Platform{OS: o, OSVersion: comp.OSVer}
	if expands(o) && osRuns(lp.OS, o) {
		want.Architecture, want.Variant = lp.Architecture, lp.Variant
	}
	return want, true
}

// canonicalShortForm: the canonical lower-case spelling of the same short form.
func canonicalShortForm(comp Plat) string {
	c := comp
	if comp.OS == "" {
		c.Arch = refNorm(Plat{OS: "linux", Arch: comp.Arch}).arch
	} else {
		c.OS = strings.ToLower(comp.OS)
		if c.OS == "macos" {
			c.OS = "darwin"
		}
	}
	return assembleShort(c, func(s string) string { return s }, "osver")
}

func assembleShort(comp Plat, casing func(string) string, key string) string {
	s := comp.Arch
	if comp.OS != "" {
		s = comp.OS
	}
	s = casing(s)
	if comp.OSVer != "" {
		s += "," + key + "=" + comp.OSVer
	}
	return s
}

func checkShortForm(cs Case, ev *evid.Collector) *evid.Violation {
	comp := *cs.Comp
	cl := "string:arch-only"
	if comp.OS != "" {
		cl = "string:os-only"
	}
	cl2, cl3 := "", ""
	if comp.OSVer != "" {
		cl2 = "string:with-osver-arg"
	}
	lp := platform.Local()
	if (comp.OS == "" && refNorm(Plat{OS: "x", Arch: comp.Arch}).arch == lp.Architecture) ||
		(comp.OS != "" && canonicalShortForm(Plat{OS: comp.OS}) == lp.OS) || strings.EqualFold(comp.OS, "local") {
		cl3 = "string:short-form-of-local-platform"
	}
	ev.Case(false, "", "kind:string", cl, cl2, cl3)
	ev.Sample(cs)
	p, err := platform.Parse(cs.Str)
	if err != nil {
		return evid.V("parse-rejects-universe-string", "Parse(%q): %v", cs.Str, err)
	}
	want, variantKnown := shortFormWant(comp)
	if lp.OS == "windows" {
		want.OSVersion = p.OSVersion // filled from the local machine, not modelled
	}
	if p.OS != want.OS || p.Architecture != want.Architecture || (variantKnown && p.Variant != want.Variant) || p.OSVersion != want.OSVersion {
		return evid.V("short-form-not-expanded-from-local-platform", "Parse(%q) = %+v; on this machine (local platform %s) the documented meaning is %+v", cs.Str, p, lp, want)
	}
	// every spelling means the same as the canonical spelling
	cstr := canonicalShortForm(comp)
	// (armel is arm/v6, which has no one-word canonical spelling)
	if cstr != cs.Str && !strings.EqualFold(comp.OS, "local") && !strings.EqualFold(comp.Arch, "armel") {
		pc, err := platform.Parse(cstr)
		if err != nil {
			return evid.V("parse-rejects-universe-string", "Parse(%q): %v", cstr, err)
		}
		if pc.OS != p.OS || pc.Architecture != p.Architecture || pc.Variant != p.Variant || pc.OSVersion != p.OSVersion {
			return evid.V("alias-short-form-differs-from-canonical-spelling", "Parse(%q) = %+v but Parse(%q) = %+v", cs.Str, p, cstr, pc)
		}
	}
	// normal form prints and re-parses to itself
	s1 := p.String()
	p1, err := platform.Parse(s1)
	if err != nil {
		return evid.V("normal-form-does-not-reparse", "Parse(%q).String() = %q which Parse rejects: %v", cs.Str, s1, err)
	}
	if p.Architecture != "" && (p1.OS != p.OS || p1.Architecture != p.Architecture || p1.Variant != p.Variant) {
		return evid.V("normal-form-reparses-differently", "Parse(%q) = %+v prints as %q which parses to %+v", cs.Str, p, s1, p1)
	}
	if s2 := p1.String(); s2 != s1 {
		return evid.V("string-parse-not-fixed-point", "Parse(%q): %q re-parses and prints as %q", cs.Str, s1, s2)
	}
	return nil
}

// --------------------------------------------------------------------- tests

func TestVerifProp(t *testing.T) {
	ev := evid.For(prop)
	rapid.Check(t, func(rt *rapid.T) {
		c := gen(rt)
		v := evid.Guard(func() *evid.Violation { return check(c, ev) })
		if ev.Report(v, c) {
			rt.Fatalf("%v", v)
		}
	})
}

// TestVerifE2E: drawn lists resolved through a real OCI layout or an in-memory
// registry, addressed by tag / digest / both, as OCI index or Docker manifest
// list, optionally below an outer index and with sha512 children.
func TestVerifE2E(t *testing.T) {
	ev := evid.For(prop)
	rapid.Check(t, func(rt *rapid.T) {
		c := genSelect(rt)
		c.API, c.APIJSON, c.E2E, c.Filter, c.Attr = false, false, true, "", nil
		if len(c.Entries) > 4 {
			c.Entries = c.Entries[:4]
		}
		o := &E2EOpt{
			Endpoint: rapid.SampledFrom([]string{"", "registry"}).Draw(rt, "endpoint"),
			RefForm:  rapid.SampledFrom([]string{"", "", "digest", "tag+digest"}).Draw(rt, "ref_form"),
			Docker:   rapid.IntRange(0, 2).Draw(rt, "docker") == 0,
			Sha512:   rapid.IntRange(0, 3).Draw(rt, "sha512") == 0,
		}
		h := refNorm(c.Req)
		nl := []int{0, 0, 0, 1, 1, 1, 2, 2}[rapid.IntRange(0, 7).Draw(rt, "levels")]
		for k := 0; k < nl; k++ {
			lv := Level{}
			rb := runnableFor(h)
			lk := rapid.IntRange(0, 19).Draw(rt, "label_kind")
			switch {
			case lk < 3:
				lv.Label = Plat{Nil: true}
			case lk < 6:
				lv.Label = c.Req
			case lk < 16 && len(rb.yes) > 0:
				lv.Label = rapid.SampledFrom(rb.yes).Draw(rt, "label_yes")
			case lk < 18 && len(rb.open) > 0:
				lv.Label = rapid.SampledFrom(rb.open).Draw(rt, "label_open")
			default:
				lv.Label = genEntry(rt, c.Req)
			}
			ns := rapid.IntRange(0, 2).Draw(rt, "n_siblings")
			for j := 0; j < ns; j++ {
				lv.Siblings = append(lv.Siblings, genEntry(rt, c.Req))
			}
			lv.Pos = rapid.IntRange(0, ns).Draw(rt, "pos")
			o.Levels = append(o.Levels, lv)
			lc := refNorm(lv.Label)
			lrc, _ := refCompatible(h, lc)
			switch {
			case lv.Label.Nil:
				ev.Class("e2e-outer-label:no-platform")
			case lc == h:
				ev.Class("e2e-outer-label:exactly-the-request")
			case lrc == yes:
				ev.Class("e2e-outer-label:runnable-not-identical")
			case lrc == unspecified:
				ev.Class("e2e-outer-label:docs-leave-open")
			default:
				ev.Class("e2e-outer-label:not-runnable")
			}
		}
		ev.Class("e2e-levels:" + strconv.Itoa(nl+1))
		c.E2EOpt = o
		ep := "ocidir"
		if o.Endpoint != "" {
			ep = o.Endpoint
		}
		ev.Class("e2e-endpoint:" + ep)
		rf := "tag"
		if o.RefForm != "" {
			rf = o.RefForm
		}
		ev.Class("e2e-ref:" + rf)
		if o.Docker {
			ev.Class("e2e-docker-manifest-list")
		}
		if o.Sha512 {
			ev.Class("e2e-sha512-children")
		}
		v := evid.Guard(func() *evid.Violation { return check(c, ev) })
		if ev.Report(v, c) {
			rt.Fatalf("%v", v)
		}
	})
}

func shardEnv() (nshards, shard int, scale float64) {
	nshards, _ = strconv.Atoi(os.Getenv("VERIF_NSHARDS"))
	if nshards < 1 {
		nshards = 1
	}
	shard, _ = strconv.Atoi(os.Getenv("VERIF_SHARD_INDEX"))
	scale, err := strconv.ParseFloat(os.Getenv("VERIF_SCALE"), 64)
	if err != nil || scale <= 0 || scale > 1 {
		scale = 1
	}
	return
}

const maxFailsPerShard = 5

// enumerate runs check on every request x every multiset of exactly k entries
// of u (check itself walks all permutations). It returns true when the whole
// shard of the space was covered.
func enumerate(t *testing.T, ev *evid.Collector, u, reqs []Plat, k int, api bool) bool {
	nshards, shard, scale := shardEnv()
	stride := 1
	if scale < 1 {
		stride = int(1/scale + 0.5)
	}
	fails := 0
	cases := 0
	es := make([]Plat, k)
	var rec func(c *Case, depth, from int) bool
	rec = func(c *Case, depth, from int) bool {
		if depth == k {
			cc := *c
			cc.Entries = es
			cases++
			v := evid.Guard(func() *evid.Violation { return check(cc, ev) })
			if v != nil {
				cc.Entries = append([]Plat(nil), es...)
				if ev.Report(v, cc) {
					t.Errorf("%v", v)
					fails++
					if fails >= maxFailsPerShard {
						return false
					}
				}
			}
			return true
		}
		for i := from; i < len(u); i++ {
			es[depth] = u[i]
			if !rec(c, depth+1, i) {
				return false
			}
		}
		return true
	}
	complete := true
	block := 0
	for _, rq := range reqs {
		c := Case{Req: rq, API: api}
		if k == 0 {
			if block%nshards == shard {
				if !rec(&c, 0, 0) {
					return false
				}
			}
			block++
			continue
		}
		for i := range u {
			mine := block%nshards == shard
			skip := (block/nshards)%stride != 0
			block++
			if !mine {
				continue
			}
			if skip {
				complete = false
				continue
			}
			es[0] = u[i]
			if !rec(&c, 1, i) {
				return false
			}
		}
	}
	ev.Add(fmt.Sprintf("enumerated_cases_lists_of_%d", k), cases)
	return complete && fails == 0
}

// TestVerifEnum1: every request as spelled (aliases included) x every list of
// 0 or 1 entries over the full universe, also through GetPlatformDesc.
func TestVerifEnum1(t *testing.T) {
	ev := evid.For(prop)
	reqs := rawRequestsOf(fullU)
	ok0 := enumerate(t, ev, fullU, reqs, 0, true)
	ok1 := enumerate(t, ev, fullU, reqs, 1, true)
	ev.Set("universe", fmt.Sprintf("%d entries, %d requests as spelled, %d normalised requests", len(fullU), len(reqs), len(requestsOf(fullU))))
	ev.Set("exhaustive_lists_le1_all_request_spellings", ok0 && ok1)
}

// TestVerifEnum2: every normalised request x every list of at most 2 entries
// over the full universe, both orders.
func TestVerifEnum2(t *testing.T) {
	ev := evid.For(prop)
	reqs := requestsOf(fullU)
	ok := enumerate(t, ev, fullU, reqs, 0, false)
	ok = enumerate(t, ev, fullU, reqs, 1, false) && ok
	ok = enumerate(t, ev, fullU, reqs, 2, false) && ok
	ev.Set("exhaustive_lists_le2", ok)
	ev.Set("exhaustive_lists_le2_space", fmt.Sprintf("%d normalised requests x every list of 0, 1 or 2 entries (multisets, both orders) over %d entries (4 OS x %d arch/variant spellings x %d OS versions + no-platform + empty-platform + OS-only + architecture-only entries)",
		len(reqs), len(fullU), len(archVariants), len(osVers)))
}

// TestVerifEnum3: multisets of 3, all 6 orders; quick over the small universe,
// thorough over the reduced universe.
func TestVerifEnum3(t *testing.T) {
	ev := evid.For(prop)
	oss, avs, key := osList4, archVariants4, "exhaustive_lists_of_3_small_universe"
	if evid.Tier() == "thorough" {
		oss, avs, key = osList, archVariants3, "exhaustive_lists_of_3_reduced_universe"
	}
	u := buildUniverse(oss, avs, osVers)
	reqs := requestsOf(u)
	ok := enumerate(t, ev, u, reqs, 3, false)
	ev.Set(key, ok)
	ev.Set("exhaustive_lists_of_3_space", fmt.Sprintf("%d normalised requests x multisets of 3 over %d entries (%d OS x %d arch/variant spellings x %d OS versions + special entries), all 6 orders", len(reqs), len(u), len(oss), len(avs), len(osVers)))
}

// TestVerifEnum4 (thorough): multisets of 4 over a small universe, all 24 orders.
func TestVerifEnum4(t *testing.T) {
	ev := evid.For(prop)
	u := buildUniverse(osList4, archVariants4, osVers)
	reqs := requestsOf(u)
	ok := enumerate(t, ev, u, reqs, 4, false)
	ev.Set("exhaustive_lists_of_4_small_universe", ok)
	ev.Set("exhaustive_lists_of_4_space", fmt.Sprintf("%d normalised requests x multisets of 4 over %d entries (%d OS x %d arch/variant spellings x %d OS versions + special entries), all 24 orders", len(reqs), len(u), len(osList4), len(archVariants4), len(osVers)))
}

// TestVerifLaws: for every request as spelled, Better restricted to the
// universe entries the code calls compatible must be irreflexive and asymmetric
// (all spellings) and transitive (all triples; quick: one spelling per normal
// form, thorough: all spellings).
func TestVerifLaws(t *testing.T) {
	ev := evid.For(prop)
	nshards, shard, _ := shardEnv()
	thorough := evid.Tier() == "thorough"
	reqs := rawRequestsOf(fullU)
	pairs, triples, fails := 0, 0, 0
	for ri, rq := range reqs {
		if ri%nshards != shard {
			continue
		}
		h := refNorm(rq)
		hp := toPlatform(rq)
		comp := platform.NewCompare(hp)
		var all, distinct []platform.Platform
		var allP, distinctP []Plat
		seen := map[canon]bool{}
		for _, e := range fullU {
			if e.Nil {
				continue
			}
			p := toPlatform(e)
			if !platform.Compatible(hp, p) {
				continue
			}
			all, allP = append(all, p), append(allP, e)
			if c := refNorm(e); !seen[c] {
				seen[c] = true
				distinct, distinctP = append(distinct, p), append(distinctP, e)
			}
		}
		ev.Case(false, "", "kind:law-sweep")
		report := func(v *evid.Violation, idx []int, src []Plat) {
			c := Case{Kind: "law", Req: rq}
			for _, i := range idx {
				c.Entries = append(c.Entries, src[i])
			}
			if ev.Report(v, c) {
				t.Errorf("%v", v)
				fails++
			}
		}
		v, idx := lawViolation(h.show(), comp, all, thorough)
		pairs += len(all) * len(all)
		if thorough {
			triples += len(all) * len(all) * len(all)
		}
		if v != nil {
			report(v, idx, allP)
		} else if !thorough {
			v, idx = lawViolation(h.show(), comp, distinct, true)
			triples += len(distinct) * len(distinct) * len(distinct)
			if v != nil {
				report(v, idx, distinctP)
			}
		}
		if fails >= maxFailsPerShard {
			break
		}
	}
	ev.Add("law_pairs_checked", pairs)
	ev.Add("law_triples_checked", triples)
	ev.Set("exhaustive_better_laws_over_universe", fails == 0)
}

// TestVerifStrings: every platform string assembled from the universe's
// components in three casings and with every spelling of the version argument.
func TestVerifStrings(t *testing.T) {
	ev := evid.For(prop)
	title := func(s string) string {
		parts := strings.Split(s, "/")
		for i, p := range parts {
			if p != "" {
				parts[i] = strings.ToUpper(p[:1]) + p[1:]
			}
		}
		return strings.Join(parts, "/")
	}
	casings := []func(string) string{func(s string) string { return s }, strings.ToUpper, title}
	n, fails := 0, 0
	run := func(c Case) bool {
		n++
		v := evid.Guard(func() *evid.Violation { return check(c, ev) })
		if ev.Report(v, c) {
			t.Errorf("%v", v)
			fails++
		}
		return fails < maxFailsPerShard
	}
	// short forms: every OS spelling alone, every architecture spelling alone
	for _, ver := range osVers {
		keys := osverKeys
		if ver == "" {
			keys = keys[:1]
		}
		for _, cf := range casings {
			for _, key := range keys {
				for _, o := range append([]string{"macos", "local"}, osList...) {
					cp := Plat{OS: o, OSVer: ver}
					if !run(Case{Kind: "string", Comp: &cp, Str: assembleShort(cp, cf, key)}) {
						return
					}
				}
				for _, av := range archVariants {
					if av[1] != "" {
						continue
					}
					cp := Plat{Arch: av[0], OSVer: ver}
					if !run(Case{Kind: "string", Comp: &cp, Str: assembleShort(cp, cf, key)}) {
						return
					}
				}
			}
		}
	}
	for _, o := range append([]string{"macos", "local"}, osList...) {
		for _, av := range archVariants {
			if o == "" && av[1] != "" {
				continue
			}
			for _, ver := range osVers {
				comp := Plat{OS: o, Arch: av[0], Variant: av[1], OSVer: ver}
				for _, cf := range casings {
					keys := osverKeys
					if ver == "" {
						keys = keys[:1]
					}
					for _, key := range keys {
						cp := comp
						if !run(Case{Kind: "string", Comp: &cp, Str: assemble(comp, cf, key)}) {
							return
						}
					}
				}
			}
		}
	}
	ev.Add("strings_enumerated", n)
	ev.Set("exhaustive_platform_strings", fails == 0)
}

// TestVerifReplayDir runs every committed replay case (plain regression form).
func TestVerifReplayDir(t *testing.T) {
	ev := evid.For(prop)
	for _, f := range evid.ReplayFiles() {
		var c Case
		if err := evid.LoadCaseFile(f, &c); err != nil {
			t.Fatalf("%s: %v", f, err)
		}
		v := evid.Guard(func() *evid.Violation { return check(c, ev) })
		if ev.Report(v, c) {
			t.Errorf("%s: %v", f, v)
		}
	}
}

func TestVerifReplay(t *testing.T) {
	ev := evid.For(prop)
	var c Case
	ok, err := evid.LoadReplay(&c)
	if !ok {
		t.Skip("no VERIF_REPLAY")
	}
	if err != nil {
		t.Fatal(err)
	}
	v := evid.Guard(func() *evid.Violation { return check(c, ev) })
	if ev.Report(v, c) {
		t.Fatalf("%v", v)
	}
}
