package c16

// Reference model for C16, written from the documentation of types/platform
// (package comments, the alias table exercised by TestPlatformParse, the
// host/target tables of TestCompare, docs/README.md on Windows versions) and the
// property statement. It deliberately does not share a representation with the
// code under test: a platform is reduced to (os, arch family, numeric variant
// level, os version) and every answer that the documentation leaves open is
// "unspecified" instead of guessed.

import (
	"strconv"
	"strings"
)

// Plat is one platform as data (a request or a list entry).
type Plat struct {
	Nil     bool   `json:"nil,omitempty"` // entry without a platform at all
	OS      string `json:"os,omitempty"`
	Arch    string `json:"arch,omitempty"`
	Variant string `json:"variant,omitempty"`
	OSVer   string `json:"osver,omitempty"`
}

func (p Plat) key() string {
	if p.Nil {
		return "<nil>"
	}
	return p.OS + "/" + p.Arch + "/" + p.Variant + "@" + p.OSVer
}

// canon is the reference normal form.
type canon struct {
	ok    bool // false: no platform
	os    string
	arch  string
	level int // numeric CPU level; the arch's baseline when the variant is absent
	osver string
}

// documented aliases
var archAlias = map[string]string{
	"amd64": "amd64", "x86_64": "amd64", "x86-64": "amd64",
	"386": "386", "i386": "386",
	"arm64": "arm64", "aarch64": "arm64",
	"arm": "arm", "armhf": "arm", "armel": "arm",
}

// baseline level of an architecture whose variant is not given:
// amd64 == amd64/v1, arm64 == arm64/v8, arm == arm/v7 (docker's default).
var archBaseline = map[string]int{"amd64": 1, "arm64": 8, "arm": 7}

func refNorm(p Plat) canon {
	if p.Nil {
		return canon{}
	}
	c := canon{ok: true, os: strings.ToLower(p.OS), osver: p.OSVer}
	if c.os == "macos" {
		c.os = "darwin"
	}
	raw := strings.ToLower(p.Arch)
	c.arch = raw
	if a, ok := archAlias[raw]; ok {
		c.arch = a
	}
	c.level = archBaseline[c.arch]
	switch raw {
	case "armhf":
		c.level = 7
	case "armel":
		c.level = 6
	case "i386":
		// alias of 386, which has no variants
	default:
		v := strings.TrimPrefix(strings.ToLower(p.Variant), "v")
		if v != "" {
			if n, err := strconv.Atoi(v); err == nil {
				c.level = n
			}
		}
	}
	return c
}

// canonVariant is the canonical spelling of the variant of a normal form.
func canonVariant(c canon) string {
	if c.level == archBaseline[c.arch] && c.arch != "arm" {
		return ""
	}
	if c.level == 0 {
		return ""
	}
	return "v" + strconv.Itoa(c.level)
}

func canonString(c canon) string {
	s := c.os + "/" + c.arch
	if v := canonVariant(c); v != "" {
		s += "/" + v
	}
	return s
}

func (c canon) show() string {
	if !c.ok {
		return "<no platform>"
	}
	s := canonString(c)
	if c.osver != "" {
		s += ",osver=" + c.osver
	}
	return s
}

type tri int

const (
	no tri = iota
	unspecified
	yes
)

func (t tri) String() string { return [...]string{"no", "unspecified", "yes"}[t] }

func winBuild(v string) (string, bool) {
	parts := strings.Split(v, ".")
	if len(parts) != 4 {
		return "", false
	}
	return strings.Join(parts[:3], "."), true
}

// refCompatible: can host h run an image built for t? The string names the
// rule that decided.
func refCompatible(h, t canon) (tri, string) {
	if !t.ok {
		return no, "no-platform"
	}
	if h.arch != t.arch {
		return no, "architecture"
	}
	if t.level > h.level {
		return no, "variant-higher-than-host"
	}
	switch h.os {
	case "linux":
		if t.os != "linux" {
			return no, "os"
		}
	case "windows": // Docker Desktop runs Linux images in a VM
		if t.os != "windows" && t.os != "linux" {
			return no, "os"
		}
	case "darwin": // Docker Desktop runs Linux images in a VM
		if t.os != "darwin" && t.os != "linux" {
			return no, "os"
		}
	default:
		if t.os != h.os {
			return no, "os"
		}
	}
	switch t.os {
	case "windows":
		// Windows images need the host's major.minor.build; the revision may differ.
		if h.osver == "" {
			return yes, ""
		}
		if t.osver == "" {
			return unspecified, "windows-entry-without-version"
		}
		hb, ok1 := winBuild(h.osver)
		tb, ok2 := winBuild(t.osver)
		if !ok1 || !ok2 {
			return unspecified, "windows-version-not-4-part"
		}
		if hb == tb {
			return yes, ""
		}
		return no, "windows-build"
	case "linux", "darwin":
		// version matching is documented for Windows only
		if h.osver == "" || t.osver == "" || h.osver == t.osver {
			return yes, ""
		}
		return unspecified, "non-windows-versions-differ"
	default:
		if h.osver == t.osver {
			return yes, ""
		}
		return unspecified, "other-os-versions-differ"
	}
}

// refExact: the entry is the requested platform itself.
func refExact(h, t canon) bool {
	return t.ok && h == t
}

// numeric comparison of two dotted versions with the same number of
// components; ok=false when the documentation gives no order.
func verCmp(a, b string) (int, bool) {
	if a == "" || b == "" {
		return 0, false
	}
	ap, bp := strings.Split(a, "."), strings.Split(b, ".")
	if len(ap) != len(bp) {
		return 0, false
	}
	for i := range ap {
		x, e1 := strconv.Atoi(ap[i])
		y, e2 := strconv.Atoi(bp[i])
		if e1 != nil || e2 != nil {
			return 0, false
		}
		if x != y {
			if x < y {
				return -1, true
			}
			return 1, true
		}
	}
	return 0, true
}

// refRank as a dominance relation: a is strictly preferable to b for host h
// when it is at least as good on every documented criterion and better on one.
// The criteria (all taken from TestCompare and the property statement):
//   - an image for the host's own OS beats one that needs the Linux VM,
//   - a higher CPU level (closer to the host's from below) beats a lower one,
//   - the host's own OS version beats any other; between two Windows images
//     the higher version wins.
//
// The relative priority of the criteria is not documented, so nothing is
// claimed when they pull in different directions. The string names the first
// criterion on which a is strictly better.
func refDominates(h, a, b canon) (bool, string) {
	why := ""
	// OS
	an, bn := a.os == h.os, b.os == h.os
	if bn && !an {
		return false, ""
	}
	if an && !bn {
		why = "native-os"
	}
	// variant
	if a.level < b.level {
		return false, ""
	}
	if a.level > b.level && why == "" {
		why = "variant"
	}
	// OS version
	if a.osver != b.osver {
		switch {
		case a.osver == h.osver:
			if why == "" {
				why = "osversion-exact"
			}
		case b.osver == h.osver:
			return false, ""
		default:
			if a.os != "windows" || b.os != "windows" {
				return false, ""
			}
			c, ok := verCmp(a.osver, b.osver)
			if !ok || c < 0 {
				return false, ""
			}
			if c > 0 && why == "" {
				why = "osversion-higher"
			}
		}
	}
	return why != "", why
}

// ------------------------------------------------------------------ universe

var osList = []string{"linux", "windows", "darwin", "freebsd"}

// architecture spellings with the variants that apply to them
var archVariants = [][2]string{
	{"amd64", ""}, {"amd64", "v1"}, {"amd64", "v2"}, {"amd64", "v3"}, {"amd64", "v4"},
	{"x86_64", ""}, {"x86_64", "v1"}, {"x86_64", "v2"}, {"x86_64", "v3"},
	{"x86-64", ""}, {"x86-64", "v1"}, {"x86-64", "v2"}, {"x86-64", "v3"},
	{"386", ""}, {"i386", ""},
	{"arm", ""}, {"arm", "v5"}, {"arm", "v6"}, {"arm", "v7"}, {"arm", "v8"}, {"arm", "7"}, {"arm", "8"},
	{"arm64", ""}, {"arm64", "v8"}, {"arm64", "8"},
	{"aarch64", ""}, {"aarch64", "v8"}, {"aarch64", "8"},
	{"armhf", ""}, {"armel", ""},
	{"ppc64le", ""}, {"riscv64", ""},
}

var osVers = []string{"", "10.0.17763.1", "10.0.17763.2000", "10.0.20348.1"}

// reduced universes for the deeper thorough enumerations
var archVariants3 = [][2]string{
	{"amd64", ""}, {"amd64", "v2"}, {"amd64", "v3"}, {"x86_64", "v1"}, {"x86-64", "v2"},
	{"x86_64", ""}, {"386", ""}, {"arm", ""}, {"arm", "v5"}, {"arm", "v6"}, {"arm", "v7"}, {"arm", "8"}, {"armel", ""},
	{"arm64", ""}, {"aarch64", ""}, {"aarch64", "v8"},
}
var archVariants4 = [][2]string{{"amd64", ""}, {"x86_64", "v2"}, {"amd64", "v3"}, {"arm64", ""}}
var osList4 = []string{"linux", "windows", "darwin"}

// buildUniverse: cross product plus the entry without a platform, the entry
// with an empty platform object, and entries with an absent field (OS only,
// architecture only).
func buildUniverse(oss []string, avs [][2]string, vers []string) []Plat {
	u := []Plat{{Nil: true}, {}, {OS: "unknown", Arch: "unknown"}} // the last one is buildkit's attestation entry
	for _, o := range oss {
		u = append(u, Plat{OS: o})
	}
	for _, av := range avs {
		if av[1] == "" {
			u = append(u, Plat{Arch: av[0]})
		}
	}
	for _, o := range oss {
		for _, av := range avs {
			for _, v := range vers {
				u = append(u, Plat{OS: o, Arch: av[0], Variant: av[1], OSVer: v})
			}
		}
	}
	return u
}

// requestsOf: every distinct normal form of a universe member that has an
// architecture, spelled canonically.
func requestsOf(u []Plat) []Plat {
	seen := map[canon]bool{}
	var out []Plat
	for _, p := range u {
		c := refNorm(p)
		if !c.ok || c.arch == "" || c.os == "" || c.os == "unknown" || seen[c] {
			continue
		}
		seen[c] = true
		out = append(out, Plat{OS: c.os, Arch: c.arch, Variant: canonVariant(c), OSVer: c.osver})
	}
	return out
}

// rawRequestsOf: every universe member that has an architecture, as spelled.
func rawRequestsOf(u []Plat) []Plat {
	var out []Plat
	for _, p := range u {
		if !p.Nil && p.Arch != "" && p.OS != "" && p.OS != "unknown" {
			out = append(out, p)
		}
	}
	return out
}
