// Package audit is an independent closure walker and OCI-layout checker. It
// reads raw storage (regmodel maps or plain files), parses manifests with
// encoding/json into generic structures and verifies digests with crypto/*.
// Nothing here goes through regclient.
package audit

import (
	"encoding/base64"
	"encoding/json"
	"fmt"
	"os"
	"path/filepath"
	"sort"
	"strings"

	rm "github.com/regclient/regclient/zz_verif/regmodel"
)

// View is read access to one repository's raw storage.
type View interface {
	// Get returns the bytes stored under a digest. mediaType is known for
	// manifests in registry storage ("" otherwise).
	Get(digest string) (data []byte, mediaType string, ok bool)
	// Tag resolves a tag.
	Tag(tag string) (digest string, ok bool)
	// Tags lists all tags.
	Tags() []string
	// Digests lists every stored digest.
	Digests() []string
}

// RepoView views a regmodel repository. The model lock must not be held by the
// caller while the client is running; take m.Lock() around audits that race
// with requests.
type RepoView struct{ R *rm.Repo }

func (v RepoView) Get(d string) ([]byte, string, bool) {
	if v.R == nil {
		return nil, "", false
	}
	if m, ok := v.R.Manifests[d]; ok {
		return m.Body, m.MediaType, true
	}
	b, ok := v.R.Blobs[d]
	return b, "", ok
}

func (v RepoView) Tag(t string) (string, bool) {
	if v.R == nil {
		return "", false
	}
	d, ok := v.R.Tags[t]
	return d, ok
}

func (v RepoView) Tags() []string {
	if v.R == nil {
		return nil
	}
	out := []string{}
	for t := range v.R.Tags {
		out = append(out, t)
	}
	sort.Strings(out)
	return out
}

func (v RepoView) Digests() []string {
	if v.R == nil {
		return nil
	}
	out := []string{}
	for d := range v.R.Manifests {
		out = append(out, d)
	}
	for d := range v.R.Blobs {
		if _, dup := v.R.Manifests[d]; !dup {
			out = append(out, d)
		}
	}
	sort.Strings(out)
	return out
}

// IndexEntry is one descriptor of a layout's index.json.
type IndexEntry struct {
	MediaType   string            `json:"mediaType"`
	Digest      string            `json:"digest"`
	Size        int64             `json:"size"`
	Annotations map[string]string `json:"annotations"`
}

// LayoutView views an OCI layout directory through plain file reads.
type LayoutView struct {
	Dir     string
	Entries []IndexEntry
	IdxErr  error
}

// OpenLayout reads index.json (errors are kept in IdxErr).
func OpenLayout(dir string) *LayoutView {
	v := &LayoutView{Dir: dir}
	b, err := os.ReadFile(filepath.Join(dir, "index.json"))
	if err != nil {
		v.IdxErr = err
		return v
	}
	var idx struct {
		SchemaVersion int          `json:"schemaVersion"`
		Manifests     []IndexEntry `json:"manifests"`
	}
	if err := json.Unmarshal(b, &idx); err != nil {
		v.IdxErr = fmt.Errorf("index.json is not valid JSON: %w", err)
		return v
	}
	v.Entries = idx.Manifests
	return v
}

func (v *LayoutView) Get(d string) ([]byte, string, bool) {
	alg, hx, ok := strings.Cut(d, ":")
	if !ok || strings.ContainsAny(hx, "/\\.") || strings.ContainsAny(alg, "/\\.") {
		return nil, "", false
	}
	b, err := os.ReadFile(filepath.Join(v.Dir, "blobs", alg, hx))
	if err != nil {
		return nil, "", false
	}
	mt := ""
	for _, e := range v.Entries {
		if e.Digest == d {
			mt = e.MediaType
		}
	}
	return b, mt, true
}

// TagOf returns the tag an index entry carries: the bare ref.name, or — for
// layouts written by other tools — the part after the last ':' of a full image
// name in ref.name.
func TagOf(e IndexEntry) (string, bool) {
	n, ok := e.Annotations["org.opencontainers.image.ref.name"]
	if !ok || n == "" {
		return "", false
	}
	return n, true
}

func (v *LayoutView) Tag(t string) (string, bool) {
	d, ok := "", false
	for _, e := range v.Entries {
		if n, has := TagOf(e); has && n == t {
			d, ok = e.Digest, true
		}
	}
	return d, ok
}

func (v *LayoutView) Tags() []string {
	seen := map[string]bool{}
	out := []string{}
	for _, e := range v.Entries {
		if n, has := TagOf(e); has && !seen[n] {
			seen[n] = true
			out = append(out, n)
		}
	}
	sort.Strings(out)
	return out
}

func (v *LayoutView) Digests() []string {
	out := []string{}
	algs, _ := os.ReadDir(filepath.Join(v.Dir, "blobs"))
	for _, a := range algs {
		if !a.IsDir() {
			continue
		}
		fs, _ := os.ReadDir(filepath.Join(v.Dir, "blobs", a.Name()))
		for _, f := range fs {
			if isHex(f.Name()) {
				out = append(out, a.Name()+":"+f.Name())
			}
		}
	}
	sort.Strings(out)
	return out
}

func isHex(s string) bool {
	if len(s) < 32 {
		return false
	}
	for i := 0; i < len(s); i++ {
		c := s[i]
		if !(c >= '0' && c <= '9' || c >= 'a' && c <= 'f') {
			return false
		}
	}
	return true
}

// Opts select what the closure contains.
type Opts struct {
	IncludeExternal bool // foreign layers (with urls) are part of the closure
	Referrers       bool // follow referrers (raw scan of stored manifests' subject), recursively
	RefFilter       func(desc map[string]any) bool
	DigestTags      bool // follow tags named <alg>-<hex>... of closure manifests
	// Exempt classifies a manifest that already existed at the target: 0 = not
	// exempt, 1 = its content subtree is not required (trusted to be complete),
	// 2 = additionally its referrers / digest-tags are not required.
	Exempt func(digest string, root bool) int
}

// Problem is one defect found by the walker.
type Problem struct {
	Digest string
	Via    string // parent digest
	What   string // missing | corrupt | unparsable | size-mismatch | data-mismatch
}

func (p Problem) String() string {
	return fmt.Sprintf("%s %s (referenced by %s)", p.What, p.Digest, p.Via)
}

// Closure walks from root and returns digest -> bytes of everything reached,
// the set of manifest digests among them, and the problems found.
func Closure(v View, root string, rootMT string, o Opts) (content map[string][]byte, manifests map[string]string, problems []Problem) {
	r := ClosureEx(v, root, rootMT, o)
	return r.Content, r.Manifests, r.Problems
}

// Result is the full outcome of a closure walk.
type Result struct {
	Content   map[string][]byte
	Manifests map[string]string // digest -> media type (as named by the parent / storage)
	Problems  []Problem
	Parent    map[string]string // digest -> digest through which it was first reached ("" for the root)
}

// ClosureEx is Closure with ancestry information.
func ClosureEx(v View, root string, rootMT string, o Opts) Result {
	var problems []Problem
	parent := map[string]string{}
	content := map[string][]byte{}
	manifests := map[string]string{}
	fullyExempt := map[string]bool{}
	var walk func(d, mt, via string, isManifest bool)
	walk = func(d, mt, via string, isManifest bool) {
		if _, seen := content[d]; seen {
			if isManifest {
				if _, m := manifests[d]; m {
					return
				}
			} else {
				return
			}
		}
		if _, has := parent[d]; !has {
			parent[d] = via
		}
		data, storedMT, ok := v.Get(d)
		if !ok {
			problems = append(problems, Problem{d, via, "missing"})
			return
		}
		if !rm.ValidDigest(d) || rm.Digest(rm.AlgOf(d), data) != d {
			// signed schema1 is addressed by its payload digest
			okSig := false
			if p, isJWS := rm.JWSPayload(data); isJWS && rm.Digest(rm.AlgOf(d), p) == d {
				okSig = true
			}
			if !okSig {
				problems = append(problems, Problem{d, via, "corrupt"})
				return
			}
		}
		content[d] = data
		if !isManifest {
			return
		}
		if mt == "" {
			mt = storedMT
		}
		manifests[d] = mt
		if o.Exempt != nil {
			if ex := o.Exempt(d, via == ""); ex > 0 {
				if ex > 1 {
					fullyExempt[d] = true
				}
				return
			}
		}
		pm, err := rm.ParseManifest(data)
		if err != nil {
			problems = append(problems, Problem{d, via, "unparsable"})
			return
		}
		for _, rf := range pm.Refs {
			if rf.Digest == "" {
				continue
			}
			switch rf.Kind {
			case "manifest":
				walk(rf.Digest, rf.MediaType, d, true)
			default:
				if len(rf.URLs) > 0 && !o.IncludeExternal {
					continue
				}
				walk(rf.Digest, "", d, false)
				if b, ok := content[rf.Digest]; ok {
					if rf.Size != 0 && int64(len(b)) != rf.Size {
						problems = append(problems, Problem{rf.Digest, d, "size-mismatch"})
					}
					if rf.HasData {
						dec, err := base64.StdEncoding.DecodeString(rf.Data)
						if err != nil || string(dec) != string(b) {
							problems = append(problems, Problem{rf.Digest, d, "data-mismatch"})
						}
					}
				}
			}
		}
	}
	walk(root, rootMT, "", true)
	if o.Referrers || o.DigestTags {
		// fixpoint: referrers and digest tags of every manifest reached
		for changed := true; changed; {
			changed = false
			cur := make([]string, 0, len(manifests))
			for d := range manifests {
				cur = append(cur, d)
			}
			sort.Strings(cur)
			for _, d := range cur {
				if fullyExempt[d] {
					continue
				}
				if o.Referrers {
					for _, rd := range RawReferrers(v, d) {
						if o.RefFilter != nil && !o.RefFilter(rd) {
							continue
						}
						dg := rd["digest"].(string)
						if _, ok := manifests[dg]; !ok {
							walk(dg, fmt.Sprint(rd["mediaType"]), d, true)
							changed = true
						}
					}
				}
				if o.DigestTags {
					prefix := strings.Replace(d, ":", "-", 1)
					for _, t := range v.Tags() {
						// the bare "<alg>-<hex>" tag is the referrers fallback index, an implementation
						// detail of referrers, not a digest tag
						if strings.HasPrefix(t, prefix) && t != prefix {
							if td, ok := v.Tag(t); ok {
								if _, seen := manifests[td]; !seen {
									walk(td, "", d, true)
									changed = true
								}
							}
						}
					}
				}
			}
		}
	}
	return Result{Content: content, Manifests: manifests, Problems: problems, Parent: parent}
}

// RawReferrers scans every stored object of the view for manifests whose
// subject is d (independent of the referrers API and of the fallback tag).
func RawReferrers(v View, d string) []map[string]any {
	out := []map[string]any{}
	for _, dg := range v.Digests() {
		data, mt, ok := v.Get(dg)
		if !ok || len(data) == 0 || data[0] != '{' {
			continue
		}
		pm, err := rm.ParseManifest(data)
		if err != nil || pm.Subject == nil || pm.Subject.Digest != d {
			continue
		}
		if mt == "" {
			mt = pm.MediaType
		}
		desc := map[string]any{"mediaType": mt, "digest": dg, "size": len(data)}
		at := pm.ArtifactType
		if at == "" {
			for _, rf := range pm.Refs {
				if rf.Kind == "config" {
					at = rf.MediaType
				}
			}
		}
		desc["artifactType"] = at
		ann := map[string]string{}
		for k, val := range pm.Annotations {
			ann[k] = val
		}
		desc["annotations"] = ann
		out = append(out, desc)
	}
	return out
}

// IndexSchemaProblems checks the RAW JSON of an index.json against the parts of the OCI image-index
// schema that unmarshalling into Go types does not enforce: a top-level object, schemaVersion 2,
// "manifests" present and an array (not null), every entry an object with a string mediaType, a string
// digest, an integer size >= 0, and annotations (when present) an object of strings.
func IndexSchemaProblems(raw []byte) []string {
	var problems []string
	var top map[string]json.RawMessage
	if err := json.Unmarshal(raw, &top); err != nil || top == nil {
		return []string{"index.json is not a JSON object"}
	}
	if sv, ok := top["schemaVersion"]; !ok || strings.TrimSpace(string(sv)) != "2" {
		problems = append(problems, "index.json schemaVersion is "+string(sv)+", not the number 2")
	}
	if mt, ok := top["mediaType"]; ok {
		var sVal string
		if json.Unmarshal(mt, &sVal) != nil {
			problems = append(problems, "index.json mediaType is not a string")
		}
	}
	ms, ok := top["manifests"]
	if !ok {
		return append(problems, `index.json has no "manifests" field (the image-index schema requires an array)`)
	}
	var entries []json.RawMessage
	if t := strings.TrimSpace(string(ms)); !strings.HasPrefix(t, "[") || json.Unmarshal(ms, &entries) != nil {
		return append(problems, `index.json "manifests" is `+truncate(string(ms), 40)+`, not an array`)
	}
	for i, e := range entries {
		var obj map[string]json.RawMessage
		if json.Unmarshal(e, &obj) != nil || obj == nil {
			problems = append(problems, fmt.Sprintf("index.json entry %d is not an object", i))
			continue
		}
		for _, k := range []string{"mediaType", "digest"} {
			var sVal string
			if v, ok := obj[k]; !ok || json.Unmarshal(v, &sVal) != nil || sVal == "" {
				problems = append(problems, fmt.Sprintf("index.json entry %d has no string %s", i, k))
			}
		}
		var size json.Number
		if v, ok := obj["size"]; !ok || json.Unmarshal(v, &size) != nil || strings.ContainsAny(size.String(), ".eE-") {
			problems = append(problems, fmt.Sprintf("index.json entry %d has no non-negative integer size", i))
		}
		if v, ok := obj["annotations"]; ok {
			var ann map[string]string
			if t := strings.TrimSpace(string(v)); !strings.HasPrefix(t, "{") || json.Unmarshal(v, &ann) != nil {
				problems = append(problems, fmt.Sprintf("index.json entry %d has annotations that are not an object of strings", i))
			}
		}
	}
	return problems
}

func truncate(s string, n int) string {
	if len(s) > n {
		return s[:n] + "..."
	}
	return s
}

// LayoutProblems checks the structural validity of a layout directory:
// oci-layout marker, index.json, at most one entry per tag, every file under a
// digest name has that digest. Temp files are returned separately.
func LayoutProblems(dir string) (problems []string, tmpFiles []string) {
	b, err := os.ReadFile(filepath.Join(dir, "oci-layout"))
	if err != nil {
		problems = append(problems, "oci-layout: "+err.Error())
	} else {
		var l struct {
			V string `json:"imageLayoutVersion"`
		}
		if err := json.Unmarshal(b, &l); err != nil {
			problems = append(problems, "oci-layout is not valid JSON: "+err.Error())
		} else if l.V != "1.0.0" {
			problems = append(problems, "oci-layout version "+l.V)
		}
	}
	v := OpenLayout(dir)
	if v.IdxErr != nil {
		problems = append(problems, "index.json: "+v.IdxErr.Error())
	} else if raw, err := os.ReadFile(filepath.Join(dir, "index.json")); err == nil {
		problems = append(problems, IndexSchemaProblems(raw)...)
	}
	seen := map[string]int{}
	for _, e := range v.Entries {
		if n, ok := TagOf(e); ok {
			seen[n]++
		}
		if e.Digest == "" {
			problems = append(problems, "index entry without digest")
		}
	}
	for n, c := range seen {
		if c > 1 {
			problems = append(problems, fmt.Sprintf("index.json has %d entries for tag %q", c, n))
		}
	}
	algs, _ := os.ReadDir(filepath.Join(dir, "blobs"))
	for _, a := range algs {
		if !a.IsDir() {
			continue
		}
		fs, _ := os.ReadDir(filepath.Join(dir, "blobs", a.Name()))
		for _, f := range fs {
			p := filepath.Join(dir, "blobs", a.Name(), f.Name())
			if !isHex(f.Name()) {
				tmpFiles = append(tmpFiles, p)
				continue
			}
			data, err := os.ReadFile(p)
			if err != nil {
				problems = append(problems, p+": "+err.Error())
				continue
			}
			d := a.Name() + ":" + f.Name()
			if !rm.ValidDigest(d) {
				continue
			}
			if rm.Digest(a.Name(), data) != d {
				if pl, isJWS := rm.JWSPayload(data); isJWS && rm.Digest(a.Name(), pl) == d {
					continue
				}
				problems = append(problems, "file "+d+" does not have that digest")
			}
		}
	}
	sort.Strings(problems)
	return problems, tmpFiles
}
