#!/usr/bin/env python3
"""Driver for the /verif checks.  ./run.py <ID> [--tier quick|thorough] [--replay PATH]

Exit codes: 0 property held on everything explored (known findings are printed
as KNOWN-FINDING lines); 1 at least one violation not listed in
known_findings.jsonl (VIOLATION lines); 2 inconclusive / infrastructure.
See DESIGN.md §1.
"""
import argparse, glob, json, os, re, shutil, signal, struct, subprocess, sys, time
from concurrent.futures import ThreadPoolExecutor

VERIF = os.path.dirname(os.path.abspath(__file__))
REPO = os.environ.get("VERIF_REPO", "/repo")
sys.path.insert(0, VERIF)
from checks import CHECKS  # noqa: E402

GOENV = dict(GOFLAGS="-mod=mod", GOPROXY="off", GOSUMDB="off", GOTOOLCHAIN="local",
             CGO_ENABLED=os.environ.get("CGO_ENABLED", "1"))
NCPU = os.cpu_count() or 4


def log(*a):
    print(*a, file=sys.stderr, flush=True)


def scratch_root():
    for d in ("/dev/shm", "/var/tmp"):
        if os.path.isdir(d) and os.access(d, os.W_OK):
            return d
    return "/var/tmp"


class Infra(Exception):
    pass


def alt_build():
    # runs against another tree (mutants, seeded changes) or with instrumentation get a build directory of their
    # own, so that they can run next to an ordinary run of the same check without exchanging binaries
    return REPO != "/repo" or bool(os.environ.get("VERIF_COVER_DIR"))


def build_dir(pid):
    b = os.path.join(VERIF, "build", pid + (".alt-%d" % os.getpid() if alt_build() else ""))
    os.makedirs(os.path.join(b, "bin"), exist_ok=True)
    return b


def make_overlay(b):
    """Map every harness file into /repo/zz_verif/... (or into an existing
    package for harness/inpkg/...)."""
    shutil.copy(os.path.join(REPO, "go.mod"), os.path.join(b, "go.mod"))
    shutil.copy(os.path.join(REPO, "go.sum"), os.path.join(b, "go.sum"))
    with open(os.path.join(b, "go.mod"), "a") as f:
        f.write("\nrequire pgregory.net/rapid v1.3.0\n")
    rep = {}
    hroot = os.path.join(VERIF, "harness")
    for root, dirs, files in os.walk(hroot):
        rel = os.path.relpath(root, hroot)
        for fn in files:
            if not fn.endswith(".go"):
                continue
            src = os.path.join(root, fn)
            if rel.split(os.sep)[0] == "inpkg":
                sub = os.path.join(*rel.split(os.sep)[1:])
                dst = os.path.join(REPO, sub, fn)
            else:
                dst = os.path.join(REPO, "zz_verif", rel, fn)
            rep[dst] = src
    with open(os.path.join(b, "overlay.json"), "w") as f:
        json.dump({"Replace": rep}, f, indent=1)


def go_build(b, pkgdir, out, test=True, race=False, tags="verif", fuzz=None, timeout=900):
    env = dict(os.environ, **GOENV)
    if test:
        cmd = ["go", "test", "-c", "-vet=off"]
    else:
        cmd = ["go", "build"]
    if tags:
        cmd += ["-tags", tags]
    if race:
        cmd += ["-race"]
    if test and os.environ.get("VERIF_COVER_DIR"):
        # blind-spot measurement (tools/coverage.py): statement coverage of /repo's own packages by the generated cases
        # (explicit package list: the cover tool cannot read the overlaid zz_verif files)
        pk = subprocess.run(["go", "list", "./..."], cwd=REPO, env=env, stdout=subprocess.PIPE, text=True).stdout.split()
        cmd += ["-cover", "-coverpkg=" + ",".join(x for x in pk if "/zz_verif" not in x)]
    cmd += ["-modfile=" + os.path.join(b, "go.mod"), "-overlay=" + os.path.join(b, "overlay.json"),
            "-o", out, "./" + pkgdir + "/"]
    t0 = time.time()
    p = subprocess.run(cmd, cwd=REPO, env=env, stdout=subprocess.PIPE, stderr=subprocess.STDOUT,
                       text=True, timeout=timeout)
    if p.returncode != 0 or not os.path.exists(out):
        raise Infra("build failed: %s\n%s" % (" ".join(cmd), p.stdout[-6000:]))
    log("[build] %s %.1fs" % (pkgdir, time.time() - t0))


def run_proc(cmd, cwd, env, timeout, logpath):
    t0 = time.time()
    with open(logpath, "w") as lf:
        p = subprocess.Popen(cmd, cwd=cwd, env=env, stdout=lf, stderr=subprocess.STDOUT,
                             start_new_session=True)
        try:
            rc = p.wait(timeout=timeout)
            to = False
        except subprocess.TimeoutExpired:
            try:
                os.killpg(p.pid, signal.SIGKILL)
            except ProcessLookupError:
                pass
            p.wait()
            rc, to = -9, True
    return rc, to, time.time() - t0


def sanitize(s):
    return re.sub(r"[^A-Za-z0-9_.-]+", "_", s)[:80]


def main():
    ap = argparse.ArgumentParser()
    ap.add_argument("id")
    ap.add_argument("--tier", default=os.environ.get("VERIF_TIER", "quick"), choices=["quick", "thorough"])
    ap.add_argument("--replay")
    ap.add_argument("--only", help="run only jobs whose name contains this")
    ap.add_argument("--scale", type=float, default=float(os.environ.get("VERIF_SCALE", "1")))
    ap.add_argument("--keep", action="store_true")
    a = ap.parse_args()
    pid = a.id
    if pid not in CHECKS:
        log("unknown property", pid)
        return 2
    cfg = CHECKS[pid]
    try:
        seed = int(os.environ.get("VERIF_SEED", "1"))
    except ValueError:
        seed = 1
    if seed == 0:
        seed = 7919
    seed = abs(seed) % 2_000_000_000
    t_start = time.time()
    scratch = os.path.join(scratch_root(), "verif-%s-%d" % (pid, os.getpid()))
    shutil.rmtree(scratch, ignore_errors=True)
    os.makedirs(scratch)
    try:
        return run(pid, cfg, a, seed, scratch, t_start)
    except Infra as e:
        log("[infra] " + str(e))
        print("INCONCLUSIVE property=%s reason=infrastructure" % pid)
        return 2
    finally:
        if not a.keep:
            shutil.rmtree(scratch, ignore_errors=True)
        if alt_build():
            shutil.rmtree(build_dir(pid), ignore_errors=True)


def run(pid, cfg, a, seed, scratch, t_start):
    b = build_dir(pid)
    make_overlay(b)
    tier = a.tier
    pkgdir = cfg.get("pkgdir") or ("zz_verif/" + cfg["pkg"])
    tags = cfg.get("tags", "verif")
    out = os.path.join(scratch, "out")
    os.makedirs(out)
    bins = {}

    def need_bin(race=False, fuzz=False, job=None):
        # a job may name its own package and build tags (e.g. a CLI engine living inside cmd/<cli>)
        jp = (job or {}).get("pkgdir") or pkgdir
        jt = (job or {}).get("tags") or tags
        key = ("race" if race else "norm") + ("" if (jp, jt) == (pkgdir, tags) else "-" + jp.replace("/", "_") + "-" + jt.replace(",", "_"))
        if key not in bins:
            o = os.path.join(b, "bin", "%s-%s.test" % (pid, key))
            if os.path.exists(o):
                os.remove(o)
            go_build(b, jp, o, test=True, race=race, tags=jt)
            bins[key] = o
        return bins[key]

    # auxiliary main packages (drv, crashrun, ...)
    auxenv = {}
    for name, apkg in (cfg.get("aux") or {}).items():
        o = os.path.join(b, "bin", name)
        if os.path.exists(o):
            os.remove(o)
        go_build(b, apkg, o, test=False, tags=tags)
        auxenv["VERIF_BIN_" + name.upper()] = o

    replay_dir = os.path.join(VERIF, "replays", pid)
    base_env = dict(os.environ, **GOENV)
    base_env.update(auxenv)
    base_env.update(VERIF_OUT=out, VERIF_TIER=tier, VERIF_KNOWN=os.path.join(VERIF, "known_findings.jsonl"),
                    VERIF_REPLAY_DIR=replay_dir, VERIF_SEED=str(seed), VERIF_REPO=REPO,
                    VERIF_DIR=VERIF, GOMEMLIMIT=cfg.get("gomemlimit", "6GiB"))
    base_env.pop("VERIF_REPLAY", None)

    tasks = []  # (label, cmd, env, timeout)
    requested = {}  # rapid shard label -> cases requested
    infra_msgs = []

    def add_task(label, binp, args, env_extra, timeout):
        cwd = os.path.join(scratch, "cwd-" + label)
        os.makedirs(cwd, exist_ok=True)
        env = dict(base_env, VERIF_SHARD=label, **env_extra)
        env["TMPDIR"] = os.path.join(cwd, "tmp")
        os.makedirs(env["TMPDIR"], exist_ok=True)
        if os.environ.get("VERIF_COVER_DIR") and "-test.fuzz" not in args:
            os.makedirs(os.environ["VERIF_COVER_DIR"], exist_ok=True)
            args = args + ["-test.coverprofile", os.path.join(os.environ["VERIF_COVER_DIR"], "%s-%s.out" % (pid, label))]
        tasks.append((label, [binp] + args, cwd, env, timeout))

    if a.replay:
        # a case found by a job that lives in its own package (CLI engines) is replayed by that package's
        # TestVerifReplay; the failure file names the job
        rjob = None
        try:
            jn = json.load(open(a.replay)).get("job")
            for j in cfg["jobs"]:
                if j["name"] == jn and j.get("pkgdir"):
                    rjob = j
        except Exception:
            pass
        binp = need_bin(race=cfg.get("replay_race", False), job=rjob)
        add_task("replay", binp, ["-test.run", "^TestVerifReplay$", "-test.v", "-test.timeout", "600s"],
                 {"VERIF_REPLAY": os.path.abspath(a.replay)}, 700)
    else:
        for job in cfg["jobs"]:
            name = job["name"]
            if a.only and a.only not in name:
                continue
            tiers = job.get("tiers", ["quick", "thorough"])
            if tier not in tiers:
                continue
            kind = job.get("kind", "rapid")
            race = job.get("race", False)
            if isinstance(race, dict):
                race = race.get(tier, False)
            timeout = job.get("timeout", {}).get(tier, 900 if tier == "quick" else 3000)
            if kind == "rapid":
                n = int(job["checks"][tier] * a.scale)
                shards = job.get("shards", {}).get(tier, 8 if tier == "quick" else 16)
                shards = max(1, min(shards, n))
                per = max(1, n // shards)
                binp = need_bin(race=race, job=job)
                for i in range(shards):
                    label = "%s-%d" % (name, i)
                    requested[label] = per
                    args = ["-test.run", "^%s$" % job["test"], "-test.v", "-test.timeout", "%ds" % timeout,
                            "-rapid.checks=%d" % per, "-rapid.seed=%d" % (seed * 10_000_000_000 + i * 100_000_000 + 1),
                            "-rapid.nofailfile", "-rapid.shrinktime=%s" % job.get("shrinktime", "20s")]
                    add_task(label, binp, args,
                             dict(VERIF_NSHARDS=str(shards), VERIF_SHARD_INDEX=str(i), **job.get("env", {})),
                             timeout + 30)
            elif kind == "plain":
                shards = job.get("shards", {}).get(tier, 1)
                binp = need_bin(race=race, job=job)
                for i in range(shards):
                    label = "%s-%d" % (name, i)
                    args = ["-test.run", "^%s$" % job["test"], "-test.timeout", "%ds" % timeout]
                    env_extra = dict(VERIF_NSHARDS=str(shards), VERIF_SHARD_INDEX=str(i),
                                     VERIF_SCALE=str(a.scale), **job.get("env", {}))
                    add_task(label, binp, args, env_extra, timeout + 30)
            elif kind == "fuzz":
                secs = int(job["seconds"][tier] * a.scale)
                o = os.path.join(b, "bin", "%s-fuzz.test" % pid)
                if "fuzz" not in bins:
                    if os.path.exists(o):
                        os.remove(o)
                    env = dict(os.environ, **GOENV)
                    cmd = ["go", "test", "-c", "-vet=off", "-tags", tags, "-fuzz=Fuzz",
                           "-modfile=" + os.path.join(b, "go.mod"),
                           "-overlay=" + os.path.join(b, "overlay.json"), "-o", o, "./" + pkgdir + "/"]
                    p = subprocess.run(cmd, cwd=REPO, env=env, stdout=subprocess.PIPE,
                                       stderr=subprocess.STDOUT, text=True)
                    if p.returncode != 0:
                        raise Infra("fuzz build failed\n" + p.stdout[-4000:])
                    bins["fuzz"] = o
                label = name
                cwd = os.path.join(scratch, "cwd-" + label)
                os.makedirs(cwd, exist_ok=True)
                # committed seed corpus
                corp = os.path.join(VERIF, "corpus", pid, job["test"])
                if os.path.isdir(corp):
                    dst = os.path.join(cwd, "testdata", "fuzz", job["test"])
                    shutil.copytree(corp, dst)
                args = ["-test.run", "^$", "-test.fuzz", "^%s$" % job["test"], "-test.fuzztime", "%ds" % secs,
                        "-test.fuzzminimizetime", "0", "-test.fuzzcachedir", os.path.join(cwd, "fuzzcache"),
                        "-test.parallel", str(job.get("parallel", NCPU)), "-test.timeout", "%ds" % (secs + 600)]
                add_task(label, bins["fuzz"], args, job.get("env", {}), secs + 700)
            else:
                raise Infra("unknown job kind " + kind)

    par = cfg.get("parallel", NCPU)
    results = []

    def runtask(t):
        label, cmd, cwd, env, timeout = t
        rc, to, dt = run_proc(cmd, cwd, env, timeout, os.path.join(out, "log-%s.txt" % label))
        return label, rc, to, dt

    with ThreadPoolExecutor(max_workers=par) as ex:
        for r in ex.map(runtask, tasks):
            results.append(r)

    # A shard that ended without a verdict (watchdog / timeout / killed / crashed without a failure
    # record) is an infrastructure outcome. It is re-run once, alone on a quiet machine, before the
    # run is declared inconclusive: a busy machine must not turn into a non-zero exit.
    def inconclusive(res):
        label, rc, to, dt = res
        if to or rc not in (0, 1):
            return True
        if not os.path.exists(os.path.join(out, "evid-%s.json" % label)):
            return True
        if rc == 1 and not glob.glob(os.path.join(out, "fail-%s-*.json" % label)) \
                and not glob.glob(os.path.join(scratch, "cwd-" + label, "testdata", "fuzz", "*", "*")):
            return True
        return False

    retry = [i for i, r in enumerate(results) if inconclusive(r)]
    if retry and not a.replay and len(retry) <= max(4, len(tasks) // 2):
        for i in retry:
            label = results[i][0]
            log("[retry] shard %s ended without a verdict (rc=%s, timeout=%s); running it again alone" % (label, results[i][1], results[i][2]))
            for fp in glob.glob(os.path.join(out, "*-%s.*" % label)) + glob.glob(os.path.join(out, "*-%s-*" % label)):
                try:
                    os.rename(fp, fp + ".first-attempt")
                except OSError:
                    pass
            results[i] = runtask(tasks[i])

    # ---- collect ----
    evals = 0
    nt = set()
    nt_overflow = 0
    classes = {}
    samples = []
    known_hits = {}
    extra = {}
    shards_done = 0
    for label, rc, to, dt in results:
        lg = os.path.join(out, "log-%s.txt" % label)
        if to:
            infra_msgs.append("%s: timed out after %.0fs" % (label, dt))
        efs = [os.path.join(out, "evid-%s.json" % label)] + sorted(glob.glob(os.path.join(out, "evid-%s.w*.json" % label)))
        if not os.path.exists(efs[0]):
            tail = ""
            if os.path.exists(lg):
                tail = open(lg, errors="replace").read()[-1500:]
            infra_msgs.append("%s: no evidence shard (rc=%s)\n%s" % (label, rc, tail))
        else:
            shards_done += 1
        for ef in efs:
            if not os.path.exists(ef):
                continue
            try:
                e = json.load(open(ef))
            except Exception as ex:  # noqa
                infra_msgs.append("%s: bad evidence shard: %s" % (label, ex))
                continue
            evals += e.get("evaluations", 0)
            nt_overflow += e.get("nt_overflow", 0)
            for k, v in (e.get("classes") or {}).items():
                classes[k] = classes.get(k, 0) + v
            for k, v in (e.get("known_hits") or {}).items():
                known_hits[k] = known_hits.get(k, 0) + v
            for k, v in (e.get("extra") or {}).items():
                if isinstance(v, bool):
                    extra[k] = extra.get(k, True) and v
                elif isinstance(v, (int, float)):
                    extra[k] = extra.get(k, 0) + v
                else:
                    extra[k] = v
            for s in (e.get("samples") or [])[:3]:
                if len(samples) < 8:
                    samples.append(s)
            nb = ef.replace("evid-", "nt-")[:-5] + ".bin"
            if os.path.exists(nb):
                data = open(nb, "rb").read()
                nt.update(struct.unpack("<%dQ" % (len(data) // 8), data))
        if rc not in (0, 1) and not to:
            tail = open(lg, errors="replace").read()[-1500:] if os.path.exists(lg) else ""
            infra_msgs.append("%s: exit status %s\n%s" % (label, rc, tail))

    # rapid stops generating at the test deadline and still reports success: record short counts
    short = {}
    for label, rc, to, dt in results:
        if label in requested and rc == 0:
            lg = os.path.join(out, "log-%s.txt" % label)
            try:
                mm = re.findall(r"OK, passed (\d+) tests", open(lg, errors="replace").read())
            except OSError:
                mm = []
            if mm and int(mm[-1]) < requested[label]:
                short[label] = (int(mm[-1]), requested[label])
    if short:
        extra["rapid_short_count_shards"] = {k: "%d of %d cases before the deadline" % v for k, v in sorted(short.items())}
        log("[note] rapid shards that hit their deadline early: %s" % extra["rapid_short_count_shards"])
    extra["rapid_cases_requested"] = sum(requested.values())
    # failures
    fails = {}
    for fp in sorted(glob.glob(os.path.join(out, "fail-*.json"))):
        try:
            r = json.load(open(fp))
        except Exception:
            continue
        sig = r.get("sig", "unknown")
        size = len(json.dumps(r.get("case")))
        if sig not in fails or size < fails[sig][0]:
            fails[sig] = (size, fp, r)
    # native fuzz crashers
    for label, rc, to, dt in results:
        cdir = os.path.join(scratch, "cwd-" + label, "testdata", "fuzz")
        corp_committed = os.path.join(VERIF, "corpus", pid)
        for fp in glob.glob(os.path.join(cdir, "*", "*")):
            base = os.path.basename(fp)
            tname = os.path.basename(os.path.dirname(fp))
            if os.path.exists(os.path.join(corp_committed, tname, base)):
                continue
            sig = "fuzz-crasher-" + tname
            if sig not in fails:
                fails[sig] = (os.path.getsize(fp), fp, {"property": pid, "sig": sig, "fuzz_input_file": open(fp).read()})
    # a test process that failed without leaving a failure record
    for label, rc, to, dt in results:
        if rc == 1 and not fails:
            lg = os.path.join(out, "log-%s.txt" % label)
            tail = open(lg, errors="replace").read()[-3000:] if os.path.exists(lg) else ""
            infra_msgs.append("%s: test failed without a failure record\n%s" % (label, tail))

    violations = []
    vdir = os.path.join(VERIF, "out", "violations", pid)
    for sig, (size, fp, r) in sorted(fails.items()):
        os.makedirs(vdir, exist_ok=True)
        dst = os.path.join(vdir, "%s-seed%d.json" % (sanitize(sig), seed))
        with open(dst, "w") as f:
            json.dump(r, f, indent=1)
        violations.append((sig, dst, r.get("msg", "")))

    # known findings
    known = []
    kf = os.path.join(VERIF, "known_findings.jsonl")
    if os.path.exists(kf):
        for line in open(kf):
            line = line.strip()
            if line:
                try:
                    known.append(json.loads(line))
                except Exception:
                    pass
    for k in known:
        if k.get("property") == pid and k.get("status") == "known" and known_hits.get(k["key"], 0) > 0:
            print("KNOWN-FINDING: property=%s key=%s %s (hit %d times in this run)" %
                  (pid, k["key"], k.get("what", ""), known_hits[k["key"]]))

    wall = time.time() - t_start
    if not a.replay:
        write_evidence(pid, cfg, tier, seed, evals, nt, nt_overflow, classes, samples, known_hits, extra,
                       violations, wall, infra_msgs, len(tasks), shards_done)
    for sig, dst, msg in violations:
        print("VIOLATION property=%s replay=%s sig=%s" % (pid, dst, sig))
        log("   " + msg[:1500].replace("\n", "\n   "))
    if violations:
        return 1
    if infra_msgs:
        for m in infra_msgs:
            log("[inconclusive] " + m)
        print("INCONCLUSIVE property=%s reason=%s" % (pid, infra_msgs[0].split("\n")[0][:200]))
        return 2
    print("OK property=%s tier=%s seed=%d evaluations=%d distinct_nontrivial=%d wall=%.1fs" %
          (pid, tier, seed, evals, len(nt), wall))
    return 0


def write_evidence(pid, cfg, tier, seed, evals, nt, nt_overflow, classes, samples, known_hits, extra,
                   violations, wall, infra_msgs, ntasks, shards_done):
    evdir = os.environ.get("VERIF_EVIDENCE_DIR") or os.path.join(VERIF, "evidence")
    os.makedirs(evdir, exist_ok=True)
    cov = {
        "evaluations": evals,
        "distinct_nontrivial": len(nt),
        "rule": cfg.get("rule", ""),
        "samples": samples,
        "class_histogram": dict(sorted(classes.items())),
        "known_findings_hit": known_hits,
        "shards_planned": ntasks,
        "shards_completed": shards_done,
    }
    if nt_overflow:
        cov["distinct_nontrivial_note"] = "hash set capped per shard; %d further first-seen hashes not stored (count is a lower bound)" % nt_overflow
    for k, v in extra.items():
        cov[k] = v
    ev = {
        "property_id": pid,
        "tier": tier,
        "seed": seed,
        "level": cfg.get("level", "exploration"),
        "coverage": cov,
        "assumptions": cfg.get("assumptions", []),
        "wall_s": round(wall, 2),
        "violations": len(violations),
    }
    if infra_msgs:
        ev["inconclusive"] = [m.split("\n")[0][:300] for m in infra_msgs]
    if violations:
        ev["violation_signatures"] = [v[0] for v in violations]
    with open(os.path.join(evdir, pid + ".json"), "w") as f:
        json.dump(ev, f, indent=1)


if __name__ == "__main__":
    sys.exit(main())
