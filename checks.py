"""Per-property job tables for run.py (see DESIGN.md §3 for the designs)."""

def rapid(name, test, quick, thorough, sq=8, st=16, **kw):
    d = dict(name=name, kind="rapid", test=test, checks=dict(quick=quick, thorough=thorough),
             shards=dict(quick=sq, thorough=st))
    d.update(kw)
    return d

def plain(name, test, sq=1, st=1, **kw):
    d = dict(name=name, kind="plain", test=test, shards=dict(quick=sq, thorough=st))
    d.update(kw)
    return d

def fuzz(name, test, thorough_s, **kw):
    d = dict(name=name, kind="fuzz", test=test, seconds=dict(quick=0, thorough=thorough_s), tiers=["thorough"])
    d.update(kw)
    return d

REPLAY = plain("replaydir", "TestVerifReplayDir")


HOOK_COMMITS = ["2ae3df1"]  # commits in /repo that add build-tag-guarded hooks
NOT_APPLICABLE = {}
# checks reviewed by the lead and registered in MANIFEST.json (others are still under construction)
READY = ["C01", "C02", "C03", "C04", "C05", "C06", "C07", "C08", "C09", "C10", "C11", "C12", "C13", "C14", "C15", "C16", "C17", "C18", "C19", "C20"]

CHECKS = {}


def _load():
    import glob, importlib.util, os, sys
    sys.modules.setdefault("checks", sys.modules[__name__])
    d = os.path.join(os.path.dirname(os.path.abspath(__file__)), "checks.d")
    for p in sorted(glob.glob(os.path.join(d, "C*.py"))):
        pid = os.path.basename(p)[:-3]
        spec = importlib.util.spec_from_file_location("checks_d_" + pid, p)
        m = importlib.util.module_from_spec(spec)
        spec.loader.exec_module(m)
        CHECKS[pid] = m.CHECK


_load()
