from checks import rapid, plain, fuzz, REPLAY

CHECK = dict(
    pkg="c01", level="exploration",
    rule="case = entry point (blob.NewReader over a generated io.ReadSeeker | RegClient.BlobGet on the model registry | RegClient.BlobGet on an OCI layout "
         "whose blob file is tampered | descriptor with inline Data over either store) x content (0..300 B, 512/4096/32 KiB/64 KiB boundaries, tar / tar.gz / JSON) "
         "x sha256/sha512 x size known/unknown (and descriptors whose size disagrees with their digest) x per-pass corruption of the served stream (bit flip, "
         "truncate, append, prepend, substitute, swap, rotate at position classes 0/1/mid/last/last+1) x delivery (source chunking, terminal result with data, "
         "transport error vs clean EOF, lying/absent Content-Length, stall) x per-GET resume script (correct 206, 200 full body with/without Content-Range, 206 from "
         "a wrong offset with honest/lying Content-Range, 206 with wrong bytes / another blob, 206 without Content-Range, 416, 5xx/429/408/503/404/403) x retry limit "
         "x throttle width x consumer (Read loops with generated buffer sizes incl. 0, 1, >len; io.ReadAll; io.Copy and io.CopyBuffer handed the returned reader itself with plain, bytes.Buffer and *os.File destinations (WriterTo/ReaderFrom dispatch); ReadFrom; the reader's own WriteTo when offered; RawBody; ToOCIConfig; "
         "ToTarReader.RawBody / ReadFile(absent)) x up to 3 rewinds (before the first read, mid-stream, after a complete pass; later passes may serve different bytes) "
         "x reads continuing after the end. Non-trivial = a pass serves a stream that differs from the content, or a drop/resume happened, or >=2 unequal read sizes, "
         "or a rewind, or an inconsistent descriptor; distinct by (entry, mode, algo, size-known, per-pass corruption kind and position class, resume behaviours, "
         "delivery faults, rewind class).",
    jobs=[REPLAY,
          plain("boundary", "TestVerifBoundary", sq=1, st=1),
          rapid("mem", "TestVerifProp", 240_000, 5_000_000, sq=7, st=5, env={"VERIF_C01_SET": "mem"}),
          rapid("io", "TestVerifProp", 120_000, 1_600_000, sq=7, st=6, env={"VERIF_C01_SET": "io"}),
          fuzz("fuzz", "FuzzVerifBlobRead", 120, parallel=4)],
    technique="property-based testing (rapid) of the blob readers through all four entry points against a scripted source / in-process model registry / tampered OCI layout, "
              "with an independent crypto/sha256|sha512 oracle over the bytes handed to the caller; exhaustive boundary sweep of small lengths; native go fuzz (bytes decoded into the same Case struct) in thorough",
    level_text="Generated-input and fault-sequence search. Oracle: whenever a pass over the stream ends cleanly (bare io.EOF from Read, nil from io.ReadAll/io.Copy/RawBody/ToOCIConfig, "
               "errs.ErrFileNotFound from ReadFile of an absent file) the bytes handed out in that pass alone must hash to the descriptor's digest and, if a size is stated, number exactly that many "
               "(also for a bare io.EOF that follows an earlier error, and for every pass after a rewind); a pass that ends cleanly must have consumed the source to its end (an over-long stream "
               "must not go unnoticed even when the bytes handed out are the content); an archive walk (GetTarReader to io.EOF) followed by a nil Close is judged like a clean end when the source was drained; "
               "Descriptor.GetData must not return data that fails the same test. Non-vacuity: intact content "
               "served by a conforming source with fewer retryable faults than the retry limit must read completely and equal the content (also after rewinds). Exploration, not proof; the boundary job "
               "enumerates every truncation offset / flipped byte / 1-2 byte overrun x every constant buffer size 0..len+2 x chunking x terminal-with-data x size known/unknown x algorithm for lengths <= 7 (quick) / <= 33 (thorough).",
    level_note="Trusted: regmodel (in-process registry model; enforces HTTP framing), the harness' scripted source and body wrapper, crypto/sha256 and crypto/sha512, archive/tar+gzip for building tar contents. "
               "A stream that ends in an error is never a violation. A stalled connection is modelled as the caller's context ending at the stall point (no clock). On a layout the bytes ReadFile/ToOCIConfig pulled are not "
               "observable and are taken to be the whole file. Self-blocking on the host throttle is observed through the pqueue hook (build tag verif), not through time. Not covered: digest algorithms other than sha256/sha512, "
               "ReadFile of a file that exists or is whited out (those return before the end of the stream), mirrors (C12), concurrent use of one reader.",
    assumptions=["in-memory transport (no TLS, no sockets); the model's response bodies behave like net/http bodies (short body -> unexpected EOF, terminal result optionally together with the last bytes)",
                 "hash collisions of sha256/sha512 do not occur"],
)
