from checks import rapid, plain, fuzz, REPLAY

CHECK = dict(
    pkg="c01", level="exploration",
    rule="TODO",
    jobs=[REPLAY,
          plain("boundary", "TestVerifBoundary", sq=1, st=1),
          rapid("mem", "TestVerifProp", 240_000, 8_000_000, sq=7, st=5, env={"VERIF_C01_SET": "mem"}),
          rapid("io", "TestVerifProp", 120_000, 3_000_000, sq=7, st=6, env={"VERIF_C01_SET": "io"}),
          fuzz("fuzz", "FuzzVerifBlobRead", 120, parallel=4)],
    technique="TODO",
    level_text="TODO",
    level_note="TODO",
    assumptions=[],
)
