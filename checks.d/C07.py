from checks import rapid, plain, fuzz, REPLAY

CHECK = dict(
        pkg="c07", level="exploration",
        aux={"drv": "zz_verif/c07drv", "crashrun": "zz_verif/crashrun"},
        rule="one evaluation = one (script, crash position k): SIGKILL delivered by a ptrace supervisor on entry to the k-th "
             "file-system mutating system call (open for writing / write / rename / unlink / mkdir / ftruncate under the layout "
             "directory, counted globally over all threads) of the victim operation(s) of a script run through the public API in a "
             "separate process. Non-trivial = the kill was delivered (1 <= k <= N) and the layout before the victim held at least "
             "one tag; distinct by (kind of the interrupted operation, system call and file class at k, pre-state class).",
        jobs=[REPLAY,
              plain("kinds", "TestVerifKinds", sq=16, st=16),
              rapid("prop", "TestVerifProp", 144, 2400, sq=16, st=16, shrinktime="30s")],
        technique="crash-point fault injection: a stdlib ptrace supervisor kills a driver process at every (kind matrix, thorough) "
                  "or at sampled and window-targeted (quick) mutating system calls of rapid-generated operation scripts; the "
                  "surviving directory is judged by an independent layout reader (os/encoding/json/crypto only), by a fresh "
                  "client process, and by repeating the interrupted operation; reference = snapshots of an uninterrupted run of "
                  "the same script at operation boundaries",
        level_text="Generated-input search with an exhaustive sub-enumeration: for the fixed kind matrix (every operation kind of "
                   "the quantifier, each from an absent/empty directory, from a blobs-only directory and from a populated layout) "
                   "and, in the thorough tier, for every generated script, EVERY crash position k in 1..N is executed. Scripts "
                   "themselves (pre-history 0-6 macro operations, 1-3 victim operations over a small deterministic content "
                   "universe) are sampled, not enumerated. Dimensions drawn (class labels dim:* in the evidence): reference form of the "
                   "target (tag, digest, tag+digest, bare = default tag), digest algorithm of blobs and of manifests (sha256/sha512), "
                   "media types (OCI/Docker image, OCI index, Docker list, OCI artifact manifest, index with subject), duplicate "
                   "layers/children, blob sizes around the 32 KiB copy buffer, BlobPut descriptor variants (full, none, digest only, "
                   "size only, wrong digest, wrong size), BlobDelete, ManifestDelete forms/options, copy options (referrers, digest "
                   "tags, force-recursive, fast-check, platforms, retag inside the layout, digest target), tar forms (ordered, reversed, "
                   "gzip, multi-image with name, docker save), layouts written by other tools before the first operation (full image "
                   "name or containerd annotations, duplicate ref.name, all-untagged, stale temp files and foreign spelling), relative "
                   "layout path, a cancelled context for single-call operations, and the CLI pattern 'operation then Close'.",
        level_note="Trusted: the independent reader harness/c07/layout.go, the supervisor's syscall decoding "
                   "(harness/crashrun), the uninterrupted run of the same script as the meaning of 'intended state'. Crash = "
                   "process death (page cache survives); power loss / fsync ordering is outside the statement. Under a "
                   "concurrent image copy the k-th call of a kill run need not be the k-th call of the count run (the oracle does "
                   "not depend on which call it is).",
        assumptions=["a crash is modelled as SIGKILL of the whole process between two system calls (a system call is atomic "
                     "with respect to the crash); file-system state survives the process",
                     "the state an uninterrupted run of the same script reaches at each operation boundary is the 'intended "
                     "state' (what uninterrupted operations do is the business of C06/C08/C10)"],
    )
