from checks import rapid, plain, REPLAY

CHECK = dict(
    pkg="c05", level="exploration",
    rule="(session 3: a front end that answers every data-carrying PATCH / replayable PUT with 307/308 first) one to two uploads per case through RegClient.BlobPut (or RegClient.BlobCopy from a layout / another registry / another repository incl. cross-repository mount, "
         "which reaches BlobPut with a blob.Reader): chunk size c 1..64 (rarely 8-64 KiB or the 1 MiB default) and single-PUT limit through reg.WithBlobSize, reg.WithBlobLimit (either option order) "
         "and/or config.Host BlobChunk/BlobMax "
         "x blob length on every boundary of c, of the server-raised chunk size and of the limit (0, 1, c-1, c, c+1, 2c-1, 2c, 2c+1, 3c+r, max-1, max, max+1, >max) "
         "x declared descriptor (absent, correct, digest-only, size-only, wrong digest in 3 flavours with/without size, size too small / too large with/without digest) "
         "(rarely 32 KiB-1 .. 96 KiB+1 and 1 MiB-1 .. 1 MiB+4097) x descriptor with/without mediaType/annotations "
         "x seekable / non-seekable / Seek-always-fails source with a generated short-read pattern, EOF-with-data and an optional non-EOF failure in mid-stream x sha256 / sha512 "
         "x context live / cancelled / deadline expired / cancelled when request k arrives / cancelled after n source bytes "
         "x reference form (repository, tag, digest, tag+digest) x host configuration (port, PathPrefix, TLS disabled, a mirror of lower or higher priority, Basic credentials demanded by the registry) "
         "x destination pre-state (empty, same blob already present) x repetition on one client (same blob again, a second different blob) "
         "x destination (regmodel strict, regmodel lax-but-truthful, fresh OCI layout) x registry behaviour (anonymous mount 201 with the blob present elsewhere / 202+Location / 4xx, "
         "OCI-Chunk-Min-Length, six upload Location styles incl. state tokens that change on every response, path-relative relocation and hand-over to an upload backend host, "
         "cyclic partial-acceptance plans answered 202+Range or 416+Location+Range, refused monolithic PUT, early 201) x up to two transient failures (retryable status, "
         "connection reset before / after processing) at generated request ordinals. Non-trivial = >=2 PATCH requests, or a chunk accepted in part, or the fall-back from a failed "
         "single PUT to the chunked transfer, or a declaration that contradicts the stream; distinct by (destination, length class and length, effective chunk, limit, declaration, "
         "acceptance plan, location style, partial mode, refuse/early/mount/min-chunk settings, fault plan, source kind, algorithm).",
    jobs=[REPLAY,
          plain("grid", "TestVerifGrid", sq=2, st=8, timeout=dict(quick=900, thorough=3000)),
          rapid("prop", "TestVerifProp", 330_000, 5_000_000, sq=14, st=16, timeout=dict(quick=900, thorough=3000))],
    technique="property-based testing (rapid) of the public BlobPut API against an in-process model registry that owns the transport (strict: verifies Content-Range continuity "
              "and the closing digest; lax: appends what it says it accepted and verifies nothing, so the bytes the client really sent become visible) and against fresh OCI "
              "layout directories; oracle reads raw destination storage; plus an exhaustive sweep of the chunk loop over (length, chunk size, accepted offset)",
    level_text="Generated-input search: after every BlobPut the raw destination storage is compared with the bytes the harness fed to the reader. Success requires the exact bytes "
               "under the returned digest = H(stream) and returned size = length; a declaration that contradicts the stream requires an error and nothing under the declared digest; "
               "a well-formed blob must be accepted by every conforming server behaviour generated (given a seekable source where the behaviour forces a rewind). In the thorough "
               "tier the sub-space (length 0..3c+1) x (c 1..8) x (accepted bytes a 0..c at the 1st/2nd/3rd PATCH) x (202+Range | 416+Location+Range) x (strict | lax) x "
               "(descriptor absent | declared with forced chunking) is enumerated completely (exhaustive_grid); the quick tier enumerates the same grid for c 1..4.",
    level_note="Trusted: regmodel (written from the distribution spec; it enforces HTTP framing) and the harness reader. Not asserted: success when an 'applied, response lost' "
               "failure was delivered, when more transient failures / refusals hit one host than the configured retry limit tolerates, or when a non-seekable source meets a behaviour "
               "that forces a rewind (refused or failed single PUT); clause (2) against the lax model when the single PUT is used (a streaming PUT relies on the registry's mandatory "
               "digest verification); the anonymous-mount shortcut is only offered for a fully correct declaration (a granted mount trusts the descriptor without reading the stream). "
               "Also not asserted: success after the generated cancellation was delivered, after the source itself failed (then only: what is stored on success equals the bytes the "
               "source handed out), after an earlier upload of the same client failed and a further failure needs the unknown backoff budget, when the registry enforces a minimum chunk "
               "above the client's configured chunk limit, or when the harness's own request cap ends an upload that was still advancing. "
               "The model never answers 'nothing accepted yet' at offset 0 (Range 0-0 ambiguity of the spec). Temp files left in a layout after a failed put are not judged.",
    assumptions=["regmodel's strict mode represents a standards-conforming registry", "in-memory transport (no TLS, no sockets)",
                 "a declared size of 0 / empty digest means 'unknown' as documented on BlobPut"],
)
