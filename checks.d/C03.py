from checks import rapid, plain, fuzz, REPLAY

CHECK = dict(
    pkg="c03", level="exploration",
    rule="image graph (imggen: single images, OCI/Docker indexes nested <=3, schema1, artifacts, blob-typed entries, shared/duplicate/empty blobs, "
         "inline data, sha256 and sha512 digests for blobs and manifests, OCI manifests without mediaType, foreign layers with urls, layers of a non-distributable media type without urls hosted by the source, referrers, digest tags; target registries that negotiate manifest media types on the Accept header; layout targets whose index lists the image while the manifest file is missing; the same client first asking for referrers in another repository of the source registry where that API answers 404; requests released in pairs (a quarter of the cases)) x endpoint pairing (same repo, same registry, two registries, registry<->layout, two layouts) "
         "x pre-existing target state (empty/partial/complete/stale tag) x option set x registry feature sets x latency plan x GOMAXPROCS; oracle = independent "
         "closure walk of raw source storage compared byte-for-byte with raw target storage after a nil return (and again after Close for layouts). "
         "Non-trivial = graph has an index, a shared/duplicate blob, or a non-empty partial pre-state; distinct by (graph shape, pairing, options, pre-state class).",
    jobs=[REPLAY, rapid("prop", "TestVerifProp", 16000, 400000, sq=16, st=16)],
    technique="property-based testing (rapid): generated image graphs / pairings / pre-states / options copied through the real client against an in-process model registry and raw OCI layouts; independent closure auditor as oracle",
    level_text="Generated-input search over image graphs, endpoint pairings, target pre-states, option sets, registry feature sets and request-latency plans; after every successful ImageCopy the statement's closure (computed from raw source storage by an independent walker) must be present byte-identically in raw target storage. Goroutine interleavings are perturbed (latency plans, GOMAXPROCS), not enumerated.",
    level_note="Trusted: regmodel (in-process registry model written from the distribution spec), the audit walker, imggen's serialiser. A copy that returns an error is not judged here (C04/C12). Manifests that already existed at the target are exempt per the statement's last sentence; the harness under-requires in that corner (never over-requires).",
    assumptions=["source content is spec-conformant and complete", "in-memory transport (no TLS, no sockets)"],
)
