from checks import rapid, plain, fuzz, REPLAY

CHECK = dict(
        pkgdir="cmd/regctl", tags="verif,c20", level="exploration",
        rule="a case is non-trivial when at least one generated name / link name / title / digest / tag contains '..', starts with '/' "
             "(incl. an absolute path into the guard directory), contains NUL or is longer than NAME_MAX (255); distinct by "
             "(surface, multiset of (operation, hostile string class)).",
        jobs=[REPLAY,
              plain("sanity", "TestVerifSanity"),
              rapid("prop", "TestVerifProp", 48_000, 480_000, sq=16, st=16),
              fuzz("fuzz", "FuzzVerifExtract", 180)],
        technique="property-based testing (rapid): hostile-name grammar applied to tar members, artifact titles, digests/tags/descriptors and "
                  "manifests; in-process regctl (cobra) against a fake registry and OCI layouts; oracle = recursive before/after listing of a "
                  "guard directory that encloses the designated directory, decoys and secrets; native go fuzz over tar members in thorough",
        level_text="Generated-input search. Every case builds a fresh guard directory (designated dir G/out, decoy files/dirs, secrets, six "
                   "ancestor levels with further decoys), runs archive.Extract / ImageImport / regctl artifact get --output / every ocidir layout "
                   "operation (through RegClient and scheme/ocidir directly) / ImageCopy, ImageExport+Import, BlobCopy from hostile layouts and a "
                   "hostile registry, and compares a full recursive listing (type, size, mtime, content hash, link count) before and after each "
                   "operation: every difference must lie under the designated directory, no link or special file may appear anywhere, and no read "
                   "may return or copy the bytes of a secret file. Exploration, not proof.",
        level_note="Trusted: the listing oracle (self-tested by the sanity job), archive/tar as reader. Not covered: Windows path semantics, "
                   "output directories that already contain user-placed links, races with concurrent writers, registry *push* paths.",
        assumptions=["the designated directory of a layout operation is ref.Path; of archive.Extract its path argument; of artifact get the --output value",
                     "an operation that fails (error or panic) is acceptable; only file-system effects and returned bytes are judged",
                     "changes inside a source layout's own directory during a copy are legitimate (a layout may write inside its own directory)"],
    )
