from checks import rapid, plain, fuzz, REPLAY

CHECK = dict(
        pkgdir="cmd/regctl", tags="verif,c20", level="exploration",
        rule="a case is non-trivial when at least one generated name / link name / title / digest / tag contains '..', starts with '/' "
             "(incl. an absolute path into the guard directory), contains NUL or is longer than NAME_MAX (255); distinct by "
             "(surface, multiset of (operation, hostile string class)).",
        jobs=[REPLAY,
              plain("sanity", "TestVerifSanity"),
              rapid("prop", "TestVerifProp", 48_000, 480_000, sq=16, st=16),
              fuzz("fuzz", "FuzzVerifExtract", 180)],
        technique="property-based testing (rapid): hostile-name grammar applied to tar members, artifact titles, digests/tags/descriptors and "
                  "manifests; in-process regctl (cobra) against a fake registry and OCI layouts; oracle = recursive before/after listing of a "
                  "guard directory that encloses the designated directory, decoys and secrets; native go fuzz over tar members in thorough",
        level_text="Generated-input search. Every case builds a fresh guard directory (designated dir G/out, decoy files/dirs, secrets, six "
                   "ancestor levels with further decoys), runs archive.Extract / ImageImport / regctl artifact get --output / every ocidir layout "
                   "operation (through RegClient and scheme/ocidir directly) / ImageCopy, ImageExport+Import, BlobCopy from hostile layouts and a "
                   "hostile registry, and compares a full recursive listing (type, size, mtime, content hash, link count) before and after each "
                   "operation: every difference must lie under the designated directory, no link or special file may appear anywhere, and no read "
                   "may return or copy the bytes of a secret file. Exploration, not proof.",
        level_note="Trusted: the listing oracle (self-tested by the sanity job), archive/tar as reader. Dimensions varied besides the hostile-string "
                   "grammar: spelling of the designated directory (absolute, trailing slash, relative, ./relative), context state (live / already "
                   "cancelled), digest algorithm of the content (sha256 / sha512), manifest kinds (OCI image / index / artifactType, docker v2 / list, "
                   "docker schema 1, OCI artifact manifest), inline descriptor data, referrers responses (fallback tag and referrers API) incl. "
                   "regctl artifact get --subject, hostile Docker-Content-Digest headers, BlobPut reader kinds (bytes / blob.Reader / plain) and "
                   "descriptor sizes, ImageCopy/Export options (referrers, digest tags, force, platforms, child, fast check, callback, compress), "
                   "tar compression (none / gzip / zstd), PAX global headers, ustar prefix splits, payload sizes around 512 and 32 KiB, archive "
                   "member order, empty layout directories. Not covered: Windows path semantics, output directories that already contain "
                   "user-placed links, races with concurrent writers or a context cancelled *during* an operation, registry push paths, "
                   "bzip2/xz compressed archives (decompress-only in the repo, same tar path afterwards), --external / ImageWithReferrerSrc/Tgt "
                   "repositories, foreign-layer URLs (ImageWithIncludeExternal needs a second host).",
        assumptions=["the designated directory of a layout operation is ref.Path; of archive.Extract its path argument; of artifact get the --output value",
                     "an operation that fails (error or panic) is acceptable; only file-system effects and returned bytes are judged",
                     "changes inside a source layout's own directory during a copy are legitimate (a layout may write inside its own directory)"],
    )
