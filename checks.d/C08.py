from checks import rapid, plain, fuzz, REPLAY

CHECK = dict(
    pkg="c08", level="exploration",
    rule="Part A (job prop): one evaluation = one generated history of 1-14 steps on ONE client and ONE layout - ImageCopy into the layout (from a model "
         "registry, another layout or the layout itself (re-tag); by tag / digest / as child; sparse via ImageWithPlatforms; with referrers / digest-tags / "
         "force-recursive / include-external; source faults that make the copy fail midway or recover, incl. failures while a blob is being WRITTEN (the source serves other bytes than the digest names, the context is cancelled right after a blob request was answered); Close(target) called from inside every k-th source request / "
         "progress callback of the running copy), hand-made pushes of a node's closure (complete, without blobs, without children; tagged / by digest / as child), "
         "single manifest / blob puts (blob pushes also failing part-way for real: other bytes than the declared digest, reader error mid-stream, context cancelled mid-body, wrong declared size), tag delete (plain tags and the referrers fallback tag), manifest delete (plain, check-referrers, with-manifest), planted "
         "blobs/<alg>/*.tmp files and unreferenced blobs, Close, image export+import into the layout, BlobDelete, re-open with fresh clients; two client instances used one after the other; target references by tag / digest / tag@digest / without tag (default tag), Close references in the same four forms, the layout path spelled absolute / relative / ./relative (one spelling per case), Close of the source layout of a copy; ~30 % of the closes and ~15 % of the other operations are called with a context that is already cancelled, past its deadline or cancelled by another goroutine during the call (a dead context never widens what Close may delete; completeness is only demanded of closes with a live context) - over an imggen graph (nested indexes, shared layers, schema1, OCI "
         "artifact manifests with blobs[], blob-typed index entries, inline data, foreign layers, bodies without mediaType, sha512-addressed blobs and manifests) extended with a signed schema1 manifest, with sibling images sharing "
         "blobs and referrers (image / artifact / index with subject and own children, referrers of referrers, subjects stored nowhere), some addressed by sha512; "
         "target pre-state absent / empty / raw layout of the graph (complete or partial, tagged only or every manifest listed; as other tools write it: full image name in ref.name, io.containerd.image.name, an entry listed twice, no tagged entry at all; planted files: *.tmp, unreferenced blobs, objects under another algorithm directory, non-digest non-temporary files); system = RegClient (GC on) | bare "
         "ocidir scheme (GC on) | ocidir.New(WithGC(false)). Every history ends with a push of an unreferenced blob and a Close. Part B (job conc): one evaluation = "
         "one schedule of 2-4 goroutines on one client running 2-5 ImageCopy calls of nodes of one graph (each from its own source repository into its own tag of "
         "ONE layout; sparse / referrers / digest-tags / source faults that fail one copy while others run; copies with referrers also with ImageWithReferrerTgt = the same layout under another reference / a SECOND layout / a registry repository and ImageWithReferrerSrc = another layout / registry repository holding the referrers; Close steps and in-copy closes on both layouts, each layout judged by itself, both must collect after the run) interleaved with Close(target) steps (live / cancelled / expired / concurrently cancelled context), Close(target) "
         "from inside every k-th / chosen source requests and progress callbacks of running copies, per-request latency plan, start pauses, GOMAXPROCS. "
         "Non-trivial = (A) some Close with a collection due follows a delete / overwrite that made previously reachable files unreachable while other content "
         "stays reachable; (B) >= 2 copies overlapped and >= 1 Close ran from inside a copy. Distinct by the whole case.",
    jobs=[REPLAY,
          rapid("prop", "TestVerifProp", 24000, 360000, sq=12, st=16, shrinktime="15s"),
          rapid("conc", "TestVerifConc", 2400, 36000, sq=4, st=16, shrinktime="20s",
                race=dict(quick=False, thorough=True))],
    replay_race=False,
    technique="model-based property testing (rapid): generated histories / schedules interpreted against the real client on real layout directories fed from an "
              "in-process model registry; oracle = independent reachability walk (audit) over the raw index.json compared with raw directory snapshots around "
              "every Close; closes injected at request / callback positions inside running copies (owned schedule points), latency plans, GOMAXPROCS and -race "
              "(thorough) for the free-running part",
    level_text="Generated-history and generated-schedule search. Around EVERY Close: (1) every digest the raw index.json reaches (entries -> manifests -> nested "
               "manifests at any depth -> config / layers / artifact blobs[] / schema1 fsLayers / blob-typed entries; referrers through their tagged fallback index) "
               "that was present and intact before is present and byte-identical after; index.json and oci-layout are untouched; (2) when the harness knows a "
               "collection was due (a write through this client succeeded since the last collection, no copy in flight, Close returned nil) the files under blobs/ "
               "are exactly that set (unreachable content and *.tmp gone) and nothing else the client created lies ANYWHERE under the layout (whole-tree scan; only files the harness itself planted outside the algorithm directories are exempt); (3) with GC disabled nothing changes at all. A Close issued from inside a source request "
               "or progress callback of a running ImageCopy (the copy provably is in progress) removes nothing; no file seen at one instant of a copy is gone at a "
               "later instant of the same copy; what lies below the tag of a copy that returned nil - right after it wrote the tag and when it returned - is still "
               "there after all goroutines finished and a final due Close, which also must have collected (a GC lock that a failed copy did not release, or one it "
               "released twice, shows here). Interleavings of the free-running goroutines are perturbed, not enumerated.",
    level_note="Trusted: regmodel, imggen's serialiser, the audit walker (R). Not asserted: completeness of a copy (C03/C04), the order / uniqueness of index entries "
               "(C06), root-level index.json.*.tmp / oci-layout.*.tmp files, stray non-temporary files with non-digest names under blobs/, objects only named by a "
               "`subject` field (the statement does not call them reachable), collection when the harness cannot know it was due (e.g. a failed copy that only left "
               "a temp file), a Close error on a layout that has no index.json yet (only blobs were pushed). Behind the known finding "
               "gc-ran-while-failed-copy-still-writing (a failed copy with referrers / digest-tags may leave goroutines behind that keep writing) the completeness "
               "clause (2) is not judged for the rest of that history / schedule (counted as *-possible-stray-writers); such failing copies are kept rare in the "
               "generator. Index referrers that list their own subject make ImageCopy with referrers wait on itself forever (liveness, not this property) and are "
               "not generated; persistent body truncation is not generated (C01 known finding).",
    assumptions=["the source content is spec-conformant and complete", "one client per layout at a time (re-open = the old client is dropped)",
                 "all references to the layout use the same path string (the dirty flag is keyed by it)"],
)
