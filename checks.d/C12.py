from checks import rapid, plain, fuzz, REPLAY

CHECK = dict(
    pkg="c12", level="fault_enumeration",
    rule="(session 3: a referrer-aware manifest delete followed by a referrers listing on the same client, generated and enumerated over every fault word of limit 1-2) L1: internal/reghttp driven directly (1-4 logical requests GET/HEAD/DELETE/PUT on one fresh client; one Client.Do + reading the body = one logical request) and "
         "L2: every RegClient registry operation (blob get/head/put monolithic+chunked/delete/mount/copy, manifest get/head/put/delete incl. referrers fall-back, tag list with pagination, "
         "tag delete by API and by placeholder image, referrer list by API with paging and by tag, catalog, ping, image copy same/cross registry) against regmodel, "
         "x retry limit 1-5 x delayInit 2-20 ms x delayMax x topology (upstream + 0-3 mirrors with priorities incl. ties, each has/lacks the content) "
         "x per-host fault word over {ok, 500, 502, 504, 408, 429, 429+Retry-After, 503, reset, reset-after, body cut at offset, 404, 416, 401 challenge with changing realm, 403, 400} "
         "of length 0..limit+3 plus a 'for ever' tail x class-targeted faults x upload server behaviours (Location styles 0-4, min chunk, partial acceptance answered 202 or 416+Location+Range, "
         "servers that never accept more, refused monolithic PUT, early 201, 5xx for ever on PATCH/PUT/status). "
         "Configuration dimensions drawn per case: host settings of 'regctl registry set' (pathPrefix on mirrors, apiOpts disableHead, reqConcurrent 1/3/8/100, reqPerSec, repoAuth, blobChunk/blobMax, "
         "Name != Hostname incl. docker.io, a mirror listed twice, 12-15 mirrors), client built without retry/delay options (what every CLI does), delayMax below delayInit / unset, limit 7, Retry-After on 5xx and as HTTP-date, "
         "context state (cancelled before the call, cancelled while the k-th request is in flight, deadline), library options (reg.WithCache, WithBlobLimit, sha512 digests, WithManifestPlatform, WithManifestRequireDigest, "
         "referrers by tag / by artifactType, list limit/last). "
         "Non-trivial = at least one injected fault was delivered, or >= 2 hosts configured; distinct by (request list / operation + parameters, per-host words, class faults, limit).",
    jobs=[REPLAY,
          rapid("prop", "TestVerifProp", 8000, 240000, sq=16, st=16),
          plain("exhaustive", "TestVerifExhaustive", sq=8, st=16)],
    technique="property-based testing (rapid) with an in-process model registry that owns the transport and executes generated fault plans; exhaustive enumeration of short fault words; "
              "log-based oracles (attempt counts per logical request, request-count caps, monotonic model timestamps, first-contact order, target host of every request, concurrency-slot probe) plus a fault-free twin run",
    level_text="Fault sequences are generated and, for one GET (L1) and one upload (L2 BlobPut) at limit 1-2 (quick) / 1-3 (thorough), enumerated completely up to length limit+1 over a 14 letter alphabet "
               "(evidence key exhaustive_words) and executed by a model registry. Checked on every case: (1) attempts per logical request <= limit+1; (2) termination by count (request cap, same chunk never PATCHed "
               "more than 12 x (limit+1) times, all concurrency slots free after Close); (3) fewer delivered transient faults than the limit => same return values and registry state as the fault-free twin; "
               "(4) one-sided back-off bounds from the model's monotonic timestamps (k-th request after the first failure of a host not before failure + k x delayInit; next request after Retry-After not before it); "
               "(5) first-contact order of reads: descending priority, upstream last among equals, hosts certainly inside a back-off window after hosts that never failed; (6) every non-GET/HEAD and every upload-session "
               "request reaches the named registry only. Exploration, not proof.",
    level_note="Trusted: regmodel, rapid. Clauses 4/5 are evaluated on sequential operations only (ImageCopy's goroutines are not owned). All timing verdicts are one-sided bounds on the model's own timestamps, except "
               "'Retry-After host contacted first', which assumes the client orders its hosts within 750 ms of being called and is reported only when three executions agree. "
               "Liveness is decided by counts (request cap 300 at L1, 3000 at L2); a wall-clock watchdog (240/300 s per case) is inconclusive.",
    assumptions=["'transient' = the classes the client documents as retryable: 429, 408, 500, 502, 504, transport error, body cut short where the endpoint supports Range (blobs) or nothing was read yet",
                 "absorption is stated for a fresh client, fewer delivered back-off events than the limit (natural 4xx/5xx answers count like faults), an attempt budget (limit+1 per logical request) that lacking "
                 "mirrors cannot exhaust ((f+1) x mirrors + f <= limit), and no fault on a probe the client deliberately does not retry (anonymous mount, tag DELETE)",
                 "mirrors hold byte-identical copies of the upstream's read repository or nothing, and answer 404 for what they lack",
                 "a fractional Retry-After (used to keep sleeps short) may be honoured or treated as a plain 429: the bound is min(value, delayInit); integer values are asserted in full"],
)
