from checks import rapid, plain, fuzz, REPLAY

CHECK = dict(
    pkg="c12", level="fault_enumeration",
    rule="L1: internal/reghttp driven directly (1-4 logical requests GET/HEAD/DELETE/PUT on one fresh client) and L2: every RegClient registry operation "
         "(blob get/head/put mono+chunked/delete/mount/copy, manifest get/head/put/delete, tag list with pagination, tag delete, referrer list, catalog, ping, image copy) "
         "against regmodel, x retry limit 1-5 x delayInit 2-20 ms x delayMax x topology (upstream + 0-3 mirrors with priorities incl. ties, each has/lacks the content) "
         "x per-host fault word over {ok, 500, 502, 504, 408, 429, 429+Retry-After, 503, reset, reset-after, body cut at offset, 404, 416, 401 challenge, 403, 400} of length 0..limit+3 plus a 'forever' tail "
         "x class-targeted faults x upload server behaviours (Location styles, min chunk, partial acceptance with 202/416, no-progress servers, refused monolithic PUT, early 201). "
         "Non-trivial = at least one injected fault was delivered, or >= 2 hosts configured; distinct by (operation/request list, parameters, per-host words, limit).",
    jobs=[REPLAY,
          rapid("prop", "TestVerifProp", 8000, 320000, sq=16, st=16),
          plain("exhaustive", "TestVerifExhaustive", sq=8, st=16)],
    technique="property-based testing (rapid) with an in-process model registry that owns the transport and executes generated fault plans; exhaustive enumeration of short fault words; log-based oracles (attempt counts, monotonic timestamps, request targets) plus a fault-free twin run",
    level_text="Fault sequences are generated (and, for one GET and one upload at limit 1-3, enumerated completely up to length limit+1) and executed by a model registry; attempts per logical request, "
               "request-count termination, absorption of fewer-than-limit transient faults (comparison with a fault-free twin), one-sided back-off bounds from the model's monotonic timestamps, "
               "mirror order and the target host of every state-changing request are checked on every case. Exploration, not proof.",
    level_note="Trusted: regmodel, rapid. Back-off and 'currently backing off' ordering are asserted only through one-sided bounds on the model's own timestamps; goroutine interleavings of ImageCopy are not owned "
               "(clauses 4/5 are skipped there). Liveness is decided by request-count caps (300-1500 per case); a wall-clock watchdog is inconclusive.",
    assumptions=["'transient' = the classes the client documents as retryable (429, 408, 500, 502, 504, transport error, body cut short where the endpoint supports Range or nothing was read yet)",
                 "absorption is stated for a fresh client, fewer delivered transient faults than the limit, and an attempt budget (limit+1 per logical request) that lacking mirrors do not exhaust",
                 "mirrors hold byte-identical copies of the upstream's read repository or nothing"],
)
