from checks import rapid, plain, fuzz, REPLAY

CHECK = dict(
    pkg="c10", level="exploration",
    rule="TODO",
    jobs=[REPLAY,
          rapid("prop", "TestVerifProp", 8000, 200000, sq=16, st=16, shrinktime="15s"),
          rapid("conc", "TestVerifConc", 4000, 60000, sq=16, st=16, shrinktime="15s",
                race=dict(quick=False, thorough=True))],
    technique="TODO",
    level_text="TODO",
    level_note="TODO",
    assumptions=[],
)
