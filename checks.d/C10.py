from checks import rapid, plain, fuzz, REPLAY

CHECK = dict(
    pkg="c10", level="exploration",
    rule="one evaluation = one generated history (1-14 steps; concurrency job: 1-9 steps, batch-heavy) of put / referrer-aware delete "
         "(WithManifestCheckReferrers, WithManifest(m), both) / ReferrerList (no filter, artifactType, annotation filters, sort options, "
         "MatchOpt or the deprecated option functions, by digest or by tag reference) / concurrent batch (2-4 puts and deletes of distinct "
         "artifacts naming ONE subject through ONE client, start offsets + per-request latency plan + GOMAXPROCS) over a pool of 2-7 "
         "artifacts (OCI image manifest with artifactType or typed config, OCI artifact manifest, OCI index with/without artifactType; "
         "4 annotation sets; pushed by digest, by digest as child, by tag) naming 3 subjects (a stored image, a digest that is not stored "
         "(sha256/sha512), artifact 0 which is itself a referrer), run against system = registry with referrers API (unpaged / page size "
         "1-2, server-side artifactType filter on/off) | registry without it (client-maintained fallback tag; tag delete supported or not) "
         "| OCI layout, each registry with reg.WithCache on/off and HEAD with/without digest header. Reference model subject -> "
         "set{(digest, artifactType, annotations)}; after EVERY step raw storage, the raw fallback tag, a fresh client's answer for all "
         "3 subjects and (generated) the client under test's answers are compared with it. Non-trivial = at some point >= 2 live "
         "artifacts named one subject and >= 1 stored artifact was deleted, or a concurrent batch with >= 2 members ran; distinct by the whole case. "
         "Dimensions added by the generator-domain audit: artifacts in a separate repository / layout listed with WithReferrerSource; the "
         "multi-platform index asked with WithReferrerPlatform (linux/amd64 = subject 0, linux/arm64 = an image nobody names); subject "
         "references as digest, tag, tag+digest and default tag; deletes by tag+digest reference and with WithManifest(m) taken from "
         "ManifestGet; artifacts identified by sha512 digests, with a digest-only subject descriptor, without the mediaType field, with "
         "empty / escaped annotations, pushed to a shared (moving) tag; calls made with a cancelled or expired context (put, delete, "
         "list) or cancelled at the k-th request (list) followed by live calls; a client that starts cold (nothing asked before the first "
         "step); batches whose members name different subjects; page size 3 and absolute Link URLs; cache entries expiring after 1 ms; "
         "config.Host.ReqConcurrent 1/2.",
    jobs=[REPLAY,
          rapid("prop", "TestVerifProp", 20000, 320000, sq=16, st=16, shrinktime="15s"),
          rapid("conc", "TestVerifConc", 8000, 48000, sq=16, st=16, shrinktime="15s",
                race=dict(quick=False, thorough=True))],
    replay_race=False,
    technique="model-based property testing (rapid): generated put/delete/list/concurrent-batch histories interpreted against the real "
              "client and a reference multimap, on an in-process model registry (referrers API on/off, paging, server filtering) and on raw "
              "OCI layouts; raw storage (model maps, index.json + blob files) read without the client; latency plans and -race for the "
              "concurrent batches",
    level_text="Generated-history search. After every step: (a) every artifact the model holds is in raw storage and no other pool artifact "
               "is, (b) on a registry without the referrers API and on layouts the fallback tag's index lists exactly the model's digests "
               "(no entry lost, left over or duplicated; tag gone or empty when there are none), (c) ReferrerList through a fresh client "
               "returns exactly the model's set for all three subjects with each entry's artifactType and annotations, (d) so does the "
               "client under test (cache included), and list steps with filters / sort options return exactly the model's matches. A "
               "concurrent batch of commuting operations must end in their unique result. Interleavings are perturbed (latency plan, start "
               "offsets, GOMAXPROCS, -race in thorough), not enumerated.",
    level_note="Trusted: regmodel (referrers API incl. paging / filtering and OCI-Subject written from the distribution spec), audit.RawReferrers "
               "(independent raw scan, cross-checked against the reference model every step), the hand-written manifest serialiser. Not "
               "asserted: order of the returned descriptors (sort options only must not change the set), descriptor mediaType/size, the "
               "Subject/Source/Tags fields of the answer, error values of deletes of absent manifests, plain (not referrer-aware) deletes, "
               "lists running concurrently with updates, garbage left behind (old fallback index blobs), behaviour after Close/GC (C08). "
               "Behind the known defect concurrent-reg-fallback-with-delete the harness rebuilds the fallback tags from the stored "
               "manifests and continues with a fresh client (counted as known-defect-repaired:*).",
    assumptions=["registries are fault free and answer as regmodel does (a registry with the referrers API acknowledges a subject with OCI-Subject)",
                 "an artifact's type is artifactType, else (image manifest) config.mediaType, else none (index); its annotations are the manifest's top-level annotations (distribution spec, referrers API)",
                 "filter semantics as documented on descriptor.MatchOpt (all listed annotations must match; an empty value only requires the key)",
                 "the WithManifest(m) option is given the manifest that is being deleted",
                 "a call whose context has ended may fail (a registry call then has sent nothing, a list never changes storage); it must not change what later calls with a live context answer"],
)
