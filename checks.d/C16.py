from checks import rapid, plain, REPLAY

CHECK = dict(
        pkg="c16", level="exploration",
        rule="a request (platform with an architecture; given as a struct, through platform.Parse of its string, or as the local "
             "platform through 'local' / '<os>' / '<arch>') and a list of 0-4 entries (rapid: sometimes 5-10) over the universe 4 OS x 32 "
             "architecture/variant spellings (aliases included; rapid adds amd64/v4 spellings and arm64/v9) x 4 OS versions + entry without "
             "platform + empty platform + OS-only + architecture-only + unknown/unknown; every permutation of the list (beyond 4 entries: "
             "all rotations and the reverse) is evaluated inside one case; 1/6 of the rapid cases add artifactType / annotation / "
             "sort-annotation filters to the MatchOpt. Non-trivial = the list holds >=2 entries the request can run (by the "
             "reference model) that have different normal forms, i.e. different rank; distinct by (request, multiset of entries). "
             "Law sweeps and platform-string cases are counted as evaluations but never as non-trivial.",
        jobs=[REPLAY,
              plain("enum1", "TestVerifEnum1", sq=2, st=2),
              plain("enum2", "TestVerifEnum2", sq=13, st=16),
              plain("enum3", "TestVerifEnum3", sq=2, st=16, timeout=dict(quick=900, thorough=3000)),
              plain("enum4", "TestVerifEnum4", st=16, tiers=["thorough"], timeout=dict(thorough=3000)),
              plain("laws", "TestVerifLaws", sq=1, st=8),
              plain("strings", "TestVerifStrings"),
              rapid("prop", "TestVerifProp", 600_000, 12_000_000, sq=4, st=16),
              rapid("e2e", "TestVerifE2E", 4_000, 80_000, sq=2, st=8)],
        technique="exhaustive enumeration of a finite platform universe (every request x every list of <=2 entries over the full universe plus lists of 3 over a "
                  "55-entry universe in quick; lists of 3 over 269 entries and of 4 over 55 entries in thorough; all permutations) plus property-based testing (rapid) of lists of up to 4 entries, "
                  "against an independent reference model of compatibility / exactness / preference; algebraic laws of the pairwise "
                  "ordering over all triples; exhaustive parse/print normal-form check of platform strings",
        level_text="Every outcome of descriptor.DescriptorListSearch (and of manifest.GetPlatformDesc on an OCI index and a Docker manifest "
                   "list, built from the struct and parsed from JSON, and of ManifestGet/ManifestHead with WithManifestPlatform on an OCI layout or an "
                   "in-memory registry, addressed by tag / digest / tag+digest, optionally below 1-2 outer indexes whose entries carry a different (compatible, absent, ...) platform and have sibling images - the final manifest is compared with the model applied level by level for the originally requested platform - and with sha512 children) is judged by a reference model written "
                   "from the documentation: the chosen entry must be runnable, NotFound only when nothing is runnable, an exact match wins, "
                   "no runnable entry that is better by the code's own Better or by the documented preferences is passed over, and the "
                   "chosen platform is the same under every permutation. The sub-space 'lists of <=2 entries over the full universe' is "
                   "enumerated completely in the quick tier (exhaustive_lists_le2); everything beyond is exploration.",
        level_note="Trusted: the reference model harness/c16/model.go. Where the documentation is silent the model answers 'unspecified' "
                   "and accepts either behaviour: a Windows entry without os.version for a request that has one, differing OS versions on "
                   "non-Windows systems, and the relative priority of the preference criteria (native OS vs CPU level vs OS version). "
                   "Variants are combined only with the architectures they apply to (amd64: v1-v3, arm: v5-v8/7/8, arm64: v8/8); "
                   "for nonsense spellings such as amd64/7 vs amd64/v7 the code's ordering has ties, which is not claimed to be a defect. "
                   "Not covered: OSFeatures/Features, mixed-length OS versions, requests without an architecture, short platform strings "
                   "whose expansion depends on the local machine (only architecture-only strings, weakly).",
        assumptions=["OS versions have equal component counts (4-part Windows builds) or are absent",
                     "requested platforms always have an architecture",
                     "the checks run on a non-Windows host (Parse copies the local Windows version into parsed Windows platforms)"],
    )
