from checks import rapid, plain, fuzz, REPLAY

CHECK = dict(
        pkg="c17", level="exploration",
        rule="1-3 queues; Max as passed to pqueue.New in {-1, 0 (both default to 1), 1, 2, 3, 4, 5, 16, 64}; element type reqmeta.Data, struct{} (regsync/regbot) "
             "or mixed per queue; priority function default, reqmeta.DataNext (kinds 0-4 x sizes incl. 0, negative, equal, the 4 MiB and 90 % cut-offs) or one "
             "that returns an index outside the list (-1, beyond the end) or the last; nil queue pointers (reghttp host without a limit); 2-5 workers each "
             "running a generated program of 1-10 ops over {Acquire, TryAcquire, AcquireMulti(subset, with nil/duplicate/other-type entries, empty list), "
             "nested Acquire/TryAcquire with the AcquireMulti context, Acquire/TryAcquire/AcquireMulti with that context on other queues or another element "
             "type, release (also from another goroutine), repeated release, cancel the context of any worker or the root context of all, context whose "
             "deadline already passed}; ~7 % of the cases come from a template that queues 3-4 waiters behind 3-5 active entries (priority function with a "
             "real choice). Engine 1 executes it under a generated schedule with exactly one goroutine running between pqueue's hook points (0-200 generated "
             "choices, then run-until-blocked), engine 2 on free goroutines (GOMAXPROCS 1/2/4/16, 10 executions per case), engine 3 runs 2-8 concurrent "
             "client calls - RegClient.BlobCopy, BlobPut from seekable / unseekable / failing-seek / streamed sources, BlobGet read to the end / closed "
             "early / closed by another goroutine, BlobHead, ManifestGet/Head/Put, TagList, ReferrerList, Close of a target layout while copies into it run - against 1-3 model registries (reqConcurrent "
             "-1/0/1/2/3, mirrors) and an OCI layout, with 0-4 generated faults (status 5xx/429/408/4xx, reset before/after, truncated bodies), some calls "
             "cancelled before or at a request; engine 5 runs 2-6 ocidir.BlobPut writers (gated source readers: the source being asked for data means the writer holds the slot of its path) on 1-2 layout paths with WithThrottle 1/2/3 or the default, WithGC on/off, under a generated controller script of start / Close(path) / finish / cancel actions; oracle: writers inside the throttled section of one path <= limit at every entry, every writer returns, `limit` fresh writers get in afterwards; engine 4 runs `regsync once` (in-package, NewRootCmd) with generated configs: 1-4 image/repository steps, "
             "parallel 0-3, ratelimit.min per entry or in defaults with a source whose manifest HEADs report RateLimit-Remaining above/below the minimum "
             "per a generated plan (release / sleep / re-acquire path; rateLimitRetryMin lowered from 5 min to 2 ms), a refresh answered 404, "
             "--abort-on-error, context cancelled at the k-th request; oracle: the command returns and rootOpts.throttle has `parallel` free slots. Non-trivial (engine 1) = the execution contained a cancellation racing with a release on the same queue (both enabled at one step, a "
             "select with both channels ready, or a slot handed to an already cancelled waiter) or an AcquireMulti over >=2 queues that met contention (a "
             "TryAcquire refused -> rollback, or blocked on its first queue); (engine 2) = a blocked waiter was really cancelled or two workers multi-acquire "
             "intersecting sets; (engine 3) = two or more live copies share a limited host. Distinct by the whole case.",
        jobs=[REPLAY,
              rapid("prop", "TestVerifProp", 240_000, 12_000_000, sq=8, st=16, shrinktime="10s"),
              rapid("free", "TestVerifFree", 20_000, 500_000, sq=8, st=16,
                    race=dict(quick=False, thorough=True), shrinktime="10s"),
              # copy: thorough runs under the race detector (the data race it first reported in reghttp's sortHostsCmp
              # was repaired in /repo by 2a8301e)
              rapid("copy", "TestVerifCopy", 1_200, 40_000, sq=8, st=16, race=dict(quick=False, thorough=True), shrinktime="10s"),
              # engine 5: the per-path write throttle of an OCI layout (ocidir.BlobPut) with Close calls in between
              rapid("layout", "TestVerifLayout", 4_000, 150_000, sq=8, st=16, race=dict(quick=False, thorough=True), shrinktime="10s"),
              # engine 4: `regsync once` through NewRootCmd (in-package test of cmd/regsync, build tag c17)
              plain("syncreplay", "TestVerifC17SyncReplayDir", pkgdir="cmd/regsync", tags="verif,c17"),
              rapid("sync", "TestVerifC17Sync", 600, 20_000, sq=4, st=16, pkgdir="cmd/regsync", tags="verif,c17",
                    race=dict(quick=False, thorough=True), shrinktime="10s")],
        technique="property-based testing (rapid) of generated worker programs under (1) a schedule controller that owns every interleaving "
                  "point of internal/pqueue through build-tag hooks and (2) free-running goroutines with the race detector; oracles: "
                  "harness-side holder count, quiescence analysis (lost wake-up / deadlock), acquire result rules, final drain test",
        level_text="Generated-schedule search: every execution is checked for holder count <= limit at each admission, for a terminal state in "
                   "which all workers finished (programs obey a lock hierarchy, so any stuck state is the queue's fault), for acquire results (an error only "
                   "with a cancelled context and then nothing held), and for exactly `limit` free slots per queue afterwards. Exploration, not "
                   "proof: 2.4e5 (quick) to 1.2e7 (thorough) owned schedules plus 2e5 to 5e6 free-running executions (thorough: race detector) plus 2.4e3 to 8e4 executions of concurrent blob copies "
                   "through regclient (all return, no throttle error, every host throttle has all its slots afterwards).",
        level_note="Trusted: the lock-hierarchy argument that makes generated programs deadlock free (harness/c17/core.go canBlock); the hook "
                   "placement in internal/pqueue (no yield inside a critical section). Residual nondeterminism: Go's select when both the "
                   "wake-up and the cancellation are ready (such cases are executed 4 times, replays 50 times). Not asserted: admission order "
                   "/ priority function results, fairness, TryAcquire exactness outside the drain test, livelock of AcquireMulti under an "
                   "adversarial infinite schedule.",
        assumptions=["callers are well-formed: a caller blocks on a queue only while all slots it holds belong to lower-numbered queues, "
                     "releases every handle it got, and uses the context returned by AcquireMulti only for queues of that set",
                     "a release function called a second time counts as a caller that holds nothing"],
    )
