from checks import rapid, plain, fuzz, REPLAY

CHECK = dict(
    pkgdir="cmd/regbot", tags="verif,c19", level="exploration",
    rule="a case is non-trivial when at least one of its scripts calls a mutating binding (image.copy, image.importTar, tag.delete, "
         "manifest.put / <manifest>:put, <manifest>:delete, blob.put / <blob>:put, reference.close); distinct by (driver, text of every script).",
    jobs=[REPLAY,
          rapid("sanity", "TestVerifSanity", 600, 2400, sq=2, st=4),
          rapid("prop", "TestVerifProp", 9600, 160000, sq=16, st=16)],
    technique="property-based testing (rapid): Lua scripts generated from the documented regbot API (every binding the sandbox registers, "
              "enumerated from a live sandbox by the sanity job) with loops over listings, conditionals, pcall, error(); run with the dry-run "
              "option through sandbox.New(WithDryRun) and through the real `regbot once --dry-run -c <yaml>` cobra command against in-process "
              "model registries (loopback for the command) and raw pre-populated OCI layouts; oracle = request methods seen by the model "
              "registries, recursive before/after listings of the layout tree taken at every statement boundary, marker log lines, and a "
              "dry-run vs normal-run differential for read-only scripts",
    level_text="Generated-input search over scripts (1-4 per configuration, 0-6 top-level statements each, drawn from ~30 statement templates "
               "covering all 39 registered Lua functions, with objects handed from one statement to a later one through globals) x worlds (imggen image graphs placed raw in 1-3 registry repositories on two model "
               "hosts with generated feature sets and 0-2 OCI layouts) x regbot configurations (driver, defaults.parallel 0-3, per-script "
               "and default timeout, verbosity info/debug/trace, YAML style, command-line spelling, config on stdin, docker config, userAgent, blobLimit, "
               "interval/schedule, x-* extensions, cred extras, Basic auth, rate-limit headers, sha512 content, expired script deadline, command context "
               "cancelled at a statement boundary, empty and unparsable scripts). Per case: (1) no model host saw a request whose method is not GET/HEAD; (2) the recursive "
               "listing (type, mode, size, mtime, inode, sha256) of the directory that holds every layout (and would hold newly created ones) is "
               "unchanged; (3) when no script calls a mutating binding, the same scripts run again in normal mode on the same state log the same "
               "messages and end the same way; (4) an unprotected error() stops its script there, every script starts whatever happened to the "
               "others, and a script cannot stop before its first statement that is not wrapped in pcall. Exploration, not proof.",
    level_note="Trusted: regmodel, imggen's raw materialisers, the listing oracle and binding table (both self-tested by the sanity job, which "
               "also runs the generated scripts in normal mode and requires every mutating binding to really change state there). Not covered: "
               "`regbot server` (cron scheduling), script timeouts that actually fire (wall clock), registries with authentication (no token "
               "endpoints), Lua's own os/io libraries (not part of the documented API), image.exportTar's local output file (N paragraph of the design).",
    assumptions=["a state-changing request is any request whose method is not GET or HEAD, whether or not the registry accepts it",
                 "the directory <root>/lay holds every layout a script names; local files a script names (export target, import source) live in <root>/scratch and are not layout files",
                 "scripts running concurrently (defaults.parallel > 0) use disjoint repositories / layouts, so that an effect can be attributed to a script",
                 "a case calls blob.get at most twice per registry host: the reader it returns is never closed by the sandbox and keeps one of the "
                 "host's 3 request slots, so a 4th request would block until the script timeout (a termination matter, outside this statement)",
                 "in-memory transport for the sandbox driver, plain HTTP over loopback for the cobra driver (tls: disabled)"],
)
