from checks import rapid, plain, fuzz, REPLAY

CHECK = dict(
    pkgdir="cmd/regsync", tags="verif,c18", level="exploration",
    rule="(session 3: windows platforms selected by os version, indexes with two windows builds) a case is non-trivial when, in a successful one-shot run, at least one source tag is selected and at least one is excluded by a tag/repository "
         "filter, or a backup was due (a selected target tag existed with another digest and a backup template is configured), or a selected tag had been "
         "moved at the target; distinct by (entries incl. filters/platform/mediaTypes/backup/switches, defaults, source and target populations as tag->image "
         "maps, registry feature sets, steps with source changes, YAML style, image graph shapes).",
    jobs=[REPLAY, rapid("prop", "TestVerifProp", 12000, 360000, sq=16, st=16)],
    technique="property-based testing (rapid): generated regsync YAML configurations (image / repository / registry entries, allow and deny lists from a "
              "regex grammar incl. top-level alternation and tag prefixes, platform, mediaTypes, backup templates, referrers / digestTags / fastCheck / "
              "forceRecursive as defaults and per-entry overrides, parallel 0-4; since the generator-domain audit also: `platforms` lists, referrerFilters "
              "(artifactType and/or annotations, entry and defaults), ratelimit.min against a source that sends RateLimit headers, cacheCount/cacheTime, "
              "blobChunk/blobMax host settings, image sources by tag / digest / tag@digest / default tag, targets without a tag, Go templates in the target, "
              "explicit empty filter lists, x-* extension fields, duplicated steps, OCI layouts (ocidir://) as source and/or target, `once --missing`, "
              "--abort-on-error, drift of the target between runs, up to three runs, sha512 digests, blob-typed and artifact-typed index entries, foreign "
              "layers) run through the real cobra commands `once` and `check` in-process against two "
              "model registries exposed on loopback; second run after generated source changes; oracle = raw before/after snapshots of both registries, "
              "an independent whole-string allow-then-deny matcher, the C03 closure auditor, and the model's request log",
    level_text="Generated-input search over sync configurations x source/target populations x registry feature sets x two-step histories. After every run that "
               "reports success: each selected tag (own matcher, ^(?:expr)$) of an allowed media type resolves at the target to the source digest (or to an entry "
               "of the configured platform's os/arch; a target tag that already held the source's index is also accepted unchanged) with the complete closure "
               "present byte-identically; every other target tag and every other repository is bit-identical to before and nothing stored disappeared; for every "
               "overwritten tag with a backup template, at the instant of the overwriting PUT (request log) the independently expanded backup name resolves to the "
               "previous image, whose plain closure is present in the backup repository; the source repositories are unchanged and received no state-changing "
               "request; a `check` run sends no state-changing request at all and changes nothing; an unchanged second run of entries without "
               "forceRecursive/referrers/digestTags sends no state-changing request to their targets. With `platforms:` only index entries of a listed "
               "platform are required; with referrerFilters only referrers that some filter matches (artifactType AND annotations); with --missing a tag that "
               "existed at the target may stay as it was; OCI-layout endpoints are judged on plain file reads (no request log: backups on the final state, "
               "content that the layout's collector may remove is not required, the image of every untouched layout tag must survive). Exploration, not proof.",
    level_note="Two defects were found on the unchanged tree and are keyed by signature: filter-top-level-alternation-not-anchored (filterList built "
               "'^'+filter+'$'; attributed only to a tag/repository whose selection differs between whole-string and textual anchoring and that was (not) mirrored "
               "accordingly) and platform-target-holding-source-index-counts-as-match (processRef keeps tgtMatches from the index comparison after resolving the "
               "platform). Trusted: regmodel, audit walker, imggen, Go's regexp package (used with explicit whole-string anchoring), yaml.v3 for the renderer guard. "
               "Runs that report an error are only judged for the source and check-only clauses. Not asserted: referrers fallback tags (sha256-<hex>) and their "
               "backups, digest tags written by the digestTags feature; which entry of several with the same os/arch a platform selects (C16); manifests that "
               "pre-existed at the target are treated as in C03 (trusted complete); over-copy of referrers that the referrerFilters exclude (the statement speaks of tags and repositories, "
               "not of extra untagged manifests; counted as an observation label only); under --missing whether an existing tag is left alone; backups of digest "
               "tags (also written as a side effect of digestTags); the implicit tag of a tag-less layout target. Not generated: referrerSource/referrerTarget, "
               "includeExternal (generated foreign-layer urls are https), a rate limit below ratelimit.min (sleeps >= 5 min), hooks, server mode, auth / "
               "mirrors / pathPrefix host settings (C11/C12), cancelled contexts (not in the quantifier; runOnce drops context.Canceled errors when parallel > 0), "
               "tagSets / semver ranges (do not exist in this tree).",
    assumptions=["source content is spec-conformant and complete; everything pre-existing at the target is a complete image",
                 "every sync entry writes into its own target repositories (no two entries compete for one target tag)",
                 "loopback HTTP without TLS; fault-free registries (faults are C04/C12)"],
)
