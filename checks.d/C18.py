from checks import rapid, plain, fuzz, REPLAY

CHECK = dict(
    pkgdir="cmd/regsync", tags="verif,c18", level="exploration",
    rule="a case is non-trivial when, in a successful one-shot run, at least one source tag is selected and at least one is excluded by a tag/repository "
         "filter, or a backup was due (a selected target tag existed with another digest and a backup template is configured), or a selected tag had been "
         "moved at the target; distinct by (entries incl. filters/platform/mediaTypes/backup/switches, defaults, source and target populations as tag->image "
         "maps, registry feature sets, steps with source changes, YAML style, image graph shapes).",
    jobs=[REPLAY, rapid("prop", "TestVerifProp", 12000, 480000, sq=16, st=16)],
    technique="property-based testing (rapid): generated regsync YAML configurations (image / repository / registry entries, allow and deny lists from a "
              "regex grammar incl. top-level alternation and tag prefixes, platform, mediaTypes, backup templates, referrers / digestTags / fastCheck / "
              "forceRecursive as defaults and per-entry overrides, parallel 0-4) run through the real cobra commands `once` and `check` in-process against two "
              "model registries exposed on loopback; second run after generated source changes; oracle = raw before/after snapshots of both registries, "
              "an independent whole-string allow-then-deny matcher, the C03 closure auditor, and the model's request log",
    level_text="Generated-input search over sync configurations x source/target populations x registry feature sets x two-step histories. After every run that "
               "reports success: each selected tag (own matcher, ^(?:expr)$) of an allowed media type resolves at the target to the source digest (or to an entry "
               "of the configured platform's os/arch; a target tag that already held the source's index is also accepted unchanged) with the complete closure "
               "present byte-identically; every other target tag and every other repository is bit-identical to before and nothing stored disappeared; for every "
               "overwritten tag with a backup template, at the instant of the overwriting PUT (request log) the independently expanded backup name resolves to the "
               "previous image, whose plain closure is present in the backup repository; the source repositories are unchanged and received no state-changing "
               "request; a `check` run sends no state-changing request at all and changes nothing; an unchanged second run of entries without "
               "forceRecursive/referrers/digestTags sends no state-changing request to their targets. Exploration, not proof.",
    level_note="Two defects were found on the unchanged tree and are keyed by signature: filter-top-level-alternation-not-anchored (filterList built "
               "'^'+filter+'$'; attributed only to a tag/repository whose selection differs between whole-string and textual anchoring and that was (not) mirrored "
               "accordingly) and platform-target-holding-source-index-counts-as-match (processRef keeps tgtMatches from the index comparison after resolving the "
               "platform). Trusted: regmodel, audit walker, imggen, Go's regexp package (used with explicit whole-string anchoring), yaml.v3 for the renderer guard. "
               "Runs that report an error are only judged for the source and check-only clauses. Not asserted: referrers fallback tags (sha256-<hex>) and their "
               "backups, digest tags written by the digestTags feature; which entry of several with the same os/arch a platform selects (C16); manifests that "
               "pre-existed at the target are treated as in C03 (trusted complete); OCI artifact manifests as index entries (C03 known finding) are not required; "
               "blob-typed index entries are not generated (ImageCopy fails on some of them, an error outcome outside C18); `platforms`, "
               "referrerFilters/Source/Target, ratelimit, hooks, server mode and --missing are not generated.",
    assumptions=["source content is spec-conformant and complete; everything pre-existing at the target is a complete image",
                 "every sync entry writes into its own target repositories (no two entries compete for one target tag)",
                 "loopback HTTP without TLS; fault-free registries (faults are C04/C12)"],
)
