from checks import rapid, plain, fuzz, REPLAY

CHECK = dict(
    pkg="c09", level="exploration",
    rule="round trip: image graph (imggen, as C03, incl. OCI manifests without the optional mediaType field) x source (registry model / OCI layout) x gzip x export-ref override x source ref (tag / tag+digest) x target "
         "(registry model, rejecting manifests with absent references or not / OCI layout) x target pre-state (empty / partial / stale tag) x source ref form (tag / tag+digest / digest only / default tag / tag of the index + digest of one of its images = `regctl image export --platform`) x target ref form (tag / digest / tag+digest / default tag) x sha512-named blobs and manifests x source blob redirect x upload chunk size of the importing client x complete pre-state x second import into the same target x probes (export / import under a cancelled or concurrently cancelled context, export into a failing writer: only a nil return is judged) x 0-3 metamorphic archive "
         "variants (entry order, ./ prefix, dropped directory members, members replaced by symlinks / hard links / symlink chains to a moved copy in three placements, "
         "unrelated extra members, duplicated members, PAX / USTAR / GNU headers, outer gzip as one or several gzip members, two-image archive (ref.name bare tag or full image name) with selection by name / tag / digest). Docker: harness-built legacy / content-addressed / OCI-flavoured "
         "`docker save` archives with real tar layers stored plain / gzip (1-4 members, incl. empty ones) / zstd, 1-3 images, duplicate layers (symlink / copy / same path), sha512 blob names, ./ paths in manifest.json, files of 32 KiB +-1 / 70 kB, selection by name, plus the "
         "same order / prefix / link / gzip variations. Non-trivial = graph has an index, a shared/duplicate blob or a blob-typed index entry, or the case imports at "
         "least one archive variant (Docker: the picked image has a layer); distinct by (graph shape, endpoints, options, pre-state, variant feature sets) resp. "
         "(style, image/layer shape, selection, duplicate style, target, variant feature set).",
    jobs=[REPLAY,
          rapid("prop", "TestVerifProp", 12000, 450000, sq=12, st=12, timeout={"quick": 900, "thorough": 5400}),
          rapid("docker", "TestVerifDocker", 4000, 150000, sq=4, st=4, timeout={"quick": 900, "thorough": 5400})],
    technique="property-based testing (rapid): generated image graphs exported through the real client, the tar stream audited with archive/tar + encoding/json + crypto, "
              "metamorphic archive variants and harness-built Docker-format archives imported into an in-process model registry / raw OCI layouts; independent closure "
              "auditor as oracle; failing variants are attributed to one transformation by re-running with single transformations kept / removed",
    level_text="Generated-input search. (1) the archive written by ImageExport is audited with archive/tar, encoding/json and crypto/* only: oci-layout, index.json naming "
               "the exported digest with its tag, media type and size, every blobs/<alg>/<hex> member has that digest, closure from the index complete and equal to the "
               "closure of raw source storage, manifest.json of a single image names the config and the layers in order; (2) after ImageImport raw target storage must "
               "resolve the target reference to the source digest and hold the source closure byte-identically, manifests stored as manifests with the source media type "
               "(again after Close for layouts); (3) every metamorphic variant of the archive must import to the same result; (4) Docker-format archives must import to an "
               "image with the archive's config bytes and, per layer, the archive's uncompressed stream (decoded per the layer's declared media type).",
    level_note="Trusted: regmodel, the audit walker, imggen's serialiser, archive/tar, compress/gzip, klauspost zstd. Export / import errors are tolerated (not judged) only "
               "for graphs whose closure contains schema1 manifests, manifests of the experimental OCI artifact-manifest type, or foreign layers (ImageExport signals "
               "these with an explicit error / cannot fetch content the source does not host); every other export and import must succeed, and a nil return is always "
               "judged. Digests that are (also) named as foreign layers are not required at the target. Known findings are neutralised after being counted (blob-typed "
               "entries pre-seeded, validation switched off, the offending transformation stripped) so that the rest of the case is still judged.",
    assumptions=["source content is spec-conformant and complete", "in-memory transport (no TLS, no sockets)",
                 "tar semantics: a hard link member follows the member it links to and names it relative to the archive root; a symlink target is relative to the link's directory",
                 "a registry may reject a manifest whose referenced blobs / manifests are absent (MANIFEST_BLOB_UNKNOWN), as distribution does"],
)
