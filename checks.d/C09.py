from checks import rapid, plain, fuzz, REPLAY

CHECK = dict(
    pkg="c09", level="exploration",
    rule="round trip: image graph (imggen) x source (registry model / OCI layout) x gzip x export-ref override x target (registry model, validating or not / OCI layout) "
         "x target pre-state x 0-3 metamorphic archive variants (entry order, ./ prefix, dropped directory members, members replaced by symlinks / hard links / "
         "symlink chains to a moved copy, unrelated extra members, outer gzip, multi-image archive with selection by name / tag / digest). Docker: harness-built "
         "legacy / content-addressed / OCI-flavoured `docker save` archives with real tar layers stored plain / gzip / zstd, 1-3 images, duplicate layers, selection by name. "
         "Non-trivial = graph has an index, a shared/duplicate blob or a blob-typed index entry, or the case imports at least one archive variant (Docker: image has a layer); "
         "distinct by (graph shape, endpoints, options, pre-state, variant feature sets) resp. (style, image/layer shape, selection, variant).",
    jobs=[REPLAY,
          rapid("prop", "TestVerifProp", 12000, 450000, sq=12, st=12, timeout={"quick": 900, "thorough": 5400}),
          rapid("docker", "TestVerifDocker", 4000, 150000, sq=4, st=4, timeout={"quick": 900, "thorough": 5400})],
    technique="property-based testing (rapid): generated image graphs exported through the real client, the tar stream audited with archive/tar + crypto, "
              "metamorphic archive variants and harness-built Docker-format archives imported into an in-process model registry / raw OCI layouts; "
              "independent closure auditor as oracle",
    level_text="Generated-input search. (1) the archive written by ImageExport is audited with archive/tar, encoding/json and crypto/* only; (2) after ImageImport "
               "raw target storage must resolve the target reference to the source digest and hold the source closure byte-identically (again after Close for "
               "layouts); (3) every metamorphic variant of the archive must import to the same result; (4) Docker-format archives must import to an image with "
               "the archive's config bytes and, per layer, the archive's uncompressed stream (decoded per the declared media type).",
    level_note="Trusted: regmodel, the audit walker, imggen's serialiser, archive/tar, compress/gzip, klauspost zstd. Export / import errors are tolerated (not judged) "
               "only for graphs whose closure contains schema1 manifests, manifests of the experimental OCI artifact-manifest type, or foreign layers; everything "
               "else must succeed. A nil return is always judged.",
    assumptions=["source content is spec-conformant and complete", "in-memory transport (no TLS, no sockets)",
                 "a hard link member follows the member it links to; symlink targets are resolved relative to the link's directory, hard link targets relative to the archive root (tar semantics)"],
)
