from checks import rapid, plain, fuzz, REPLAY

CHECK = dict(
        pkg="c15", level="exploration",
        rule="strings drawn 40/40/20 from (i) the reference grammar component-wise, (ii) single grammar-leaving mutations of (i), "
             "(iii) arbitrary bytes - mutations include outer whitespace / CR LF / tab padding; the same strings also go through `regctl ref <s> --format <fields>` and `regctl ref <s>` (CLI engine); oracle = hand-written recogniser (accept/reject + all fields), CommonName round-trip, "
             "SetTag/SetDigest/AddDigest frame conditions, NewHost vs registry sub-grammar. Non-trivial = accepted with >=3 "
             "components present, or a mutation the model places outside the grammar; distinct by input string.",
        jobs=[REPLAY,
              rapid("prop", "TestVerifProp", 80_000, 6_000_000),
              # CLI engine: `regctl ref` (cmd/regctl/ref.go is an anchor file) on the same generated strings
              plain("clireplay", "TestVerifCLIReplayDir", pkgdir="cmd/regctl", tags="verif,c15"),
              rapid("cli", "TestVerifCLI", 24_000, 600_000, pkgdir="cmd/regctl", tags="verif,c15"),
              fuzz("fuzz", "FuzzVerifRef", 120)],
        technique="property-based testing (rapid) with grammar + mutation generators against a hand-written reference recogniser, for the library (ref.New/NewHost/setters) and for the `regctl ref` command run through its cobra root; round-trip and frame-condition oracles; native go fuzz in thorough",
        level_text="Generated-input search: every accepted/rejected decision and every parsed field of ref.New/NewHost is compared with an independent scanner for the grammar, and every accepted reference (and every SetTag/SetDigest/AddDigest result) must re-parse from CommonName to the same components. Exploration, not proof: 8e4 (quick) to 6e6 (thorough) strings plus coverage-guided fuzzing.",
        level_note="Trusted: the hand-written recogniser (harness/c15/recog.go) as the statement of the grammar; rapid's generators. Not covered: strings longer than ~300 bytes except the 128/129-char tag boundary.",
        assumptions=["the reference grammar is the one documented by types/ref (Docker reference grammar plus regclient's "
                     "upper-case single-label hosts, localhost and trailing-dot forms), re-implemented by hand without regexp"],
    )
