from checks import rapid, plain, fuzz, REPLAY

CHECK = dict(
    pkg="c14", level="exploration",
    rule="copy scenarios as C03 with default options (image graphs with arbitrary sharing x pairing {same repo, same registry with mount granted/refused, "
         "two registries, registry<->layout} x arbitrary subset of the closure pre-existing at the target x latency plan; in a quarter of the cases the model registries release requests in pairs so that the per-child goroutines reach the shared bookkeeping together; registries that negotiate manifest media types on Accept); oracle = predicates over the model "
         "registry's request log: no source GET of a blob the target repo held, each blob GET / committed upload at most once, mount instead of transfer when "
         "granted, retag = exactly one manifest PUT and no blob traffic, identical target = zero state-changing requests. Non-trivial = shared blob/manifest, "
         "non-empty pre-state or granted-mount pairing; distinct by (graph shape, pairing, pre-state, mount features).",
    jobs=[REPLAY, rapid("prop", "TestVerifProp", 16000, 400000, sq=16, st=16)],
    technique="property-based testing (rapid) with a request-log oracle over an in-process model registry",
    level_text="Generated-input search over image graphs, pairings and target pre-states; every successful default-options ImageCopy is judged on the complete request log the model registries received. Layout<->layout traffic is not observable and not claimed.",
    level_note="Trusted: regmodel's request log and classification. Only registry sides are observable. Repeated HEADs are not transfers and are not limited; upload sessions that were opened and cancelled without bytes are not transfers.",
    assumptions=["default copy options", "no injected faults"],
)
