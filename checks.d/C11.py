from checks import rapid, plain, fuzz, REPLAY

CHECK = dict(
    pkg="c11", level="exploration",
    rule="(session 3: host entries also given as configuration-file text - JSON / YAML decoded by /repo; an older generation of the credentials in the host entry overridden by the docker config; registries that redirect every state-changing request to a push endpoint with 307/308/302/303) topology of 2-3 configured registries with unique credentials (+ an optional configured-but-unused one): upstream with 0-2 mirrors (with/without the content, "
         "priorities), copy partners, Docker Hub names, name != hostname; third hosts: blob redirect target (storage host, another registry, the registry itself with "
         "the same or another scheme; 301/302/303/307/308), external layer URL host, upload Location host (hand-over to a backend, or absolute Location with a server "
         "chosen scheme), tag-list Link host, token endpoint on the registry / a separate host / another registry; per host an auth spec (open, Basic, Bearer with "
         "GET and POST flows, refresh tokens, anonymous tokens, scope check, several challenges in one or two headers, unsupported schemes, malformed challenges, "
         "a challenge that changes at a request ordinal) and 401 answers at generated request ordinals on ANY host (incl. challenges that name a registry's own "
         "token endpoint); client configuration through config.Host (tls enabled/insecure/disabled, repoAuth, mirrors) or a generated docker config file (every "
         "accepted key spelling, auth/username+password/identitytoken forms, rejected host/repo keys with decoy credentials); 1-9 operations (manifest "
         "get/head/put/delete, blob get/head/put/mount/delete, tag list, referrers, image copy, ping, catalog), chunked uploads, paged lists; log through slog "
         "text/JSON handlers or the logrus bridge at trace level. Oracle = taint scan of every request any model host received + scan of the captured log. "
         "Audit round (generator-domain): credentials also through a credential helper program (config.Host credHelper, '<token>' identity form, and as "
         "host default = regctl --default-cred-helper), WithConfigHostDefault (tls / repoAuth for hosts that do not say), docker config found through $DOCKER_CONFIG, "
         "one login given twice (config.Host + docker file, two key spellings), user-only login, pathPrefix mirrors, duplicated mirror entries, apiOpts disableHead, a "
         "registry the client only knows by name; registry name forms localhost / IPv4:port / upper-case label / trailing dot; redirect targets inside the registry's "
         "own site (sub-domain, same name other port) and two-hop redirects; token endpoints that answer with a redirect (301/302/303/307/308) to another host; foreign "
         "layer URLs on a configured registry and an unavailable URL listed first; the same scheme challenged twice; transient faults (429/408/5xx +- Retry-After, reset, "
         "truncation) at generated ordinals on any host; further operations (tag delete incl. the dummy-manifest fall-back, BlobCopy, BlobMount across registries, "
         "ImageConfig, ImageExport, referrers with a source repository on another registry, manifest put with subject, index + platform, copy into an OCI layout, "
         "fast-check / force-recursive), reference forms tag@digest and default tag, sha512 and unknown-descriptor uploads with sizes around the chunk and monolithic "
         "limits, reg cache, context cancelled before the call / at the k-th request, operations run in parallel on one client. "
         "Non-trivial = >=2 hosts with configured credentials and >=1 cross-host edge (mirror, copy, redirect, external URL, upload host, Link host, separate token "
         "endpoint) whose target received >=1 request; distinct by (topology, client config, auth spec and challenge ordinals per host, operation multiset).",
    jobs=[REPLAY, rapid("prop", "TestVerifProp", 48000, 2000000, sq=16, st=16)],
    technique="property-based testing (rapid): generated multi-host topologies, auth specifications, challenge positions, client configurations and operation lists run "
              "through the real client against an in-process model of registries, token endpoints, storage/upload/external hosts that owns the transport; taint-scan "
              "oracle over every received request (URL, headers, body; raw, base64, URL- and form-encoded readings) and over the trace-level log",
    level_text="Generated-input search over host topologies, authentication schemes, challenge sequences, client configuration forms and client operations. Every request "
               "received by any model host is searched for every secret (user, password, identity token, base64 Basic value, issued bearer and refresh tokens) of every "
               "other host; a secret of registry j may only reach j itself and a token endpoint that j itself had named in a challenge before; issued bearer tokens only "
               "j; a request that carries any secret to a host the client configured for TLS must have been sent with scheme https; the trace-level log must contain no "
               "secret other than user names. Exploration, not proof.",
    level_note="Trusted: regmodel plus the auth layer of harness/c11 (Host.Intercept) as the model of registries and token services; the in-memory transport (no sockets, no "
               "TLS: 'clear text' is judged from the URL scheme the client chose). Known findings are attributed by (role of the receiving host, who challenged / named "
               "the realm before, request class) and any leak outside those attributions is a fresh violation. Not asserted: which registry a rejected docker key "
               "('host/repo') would have been meant for (its decoy credentials may reach the host named in the key, nobody else); user names in the log (logged on "
               "purpose); the scheme of requests to hosts without client configuration (token endpoints on separate hosts, storage, upload and external hosts); "
               "credential helpers (would execute external programs).",
    assumptions=["a request logged by the model for a URL without host or with a scheme other than http/https is not a transmission (a real transport refuses it)",
                 "the docker config file sets TLS by key spelling (http:// = disabled, else enabled), as config/docker.go does",
                 "in-memory transport (no TLS, no sockets); request interleavings of ImageCopy are whatever the scheduler produces"],
)
