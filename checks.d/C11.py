from checks import rapid, plain, fuzz, REPLAY

CHECK = dict(
    pkg="c11", level="exploration",
    rule="placeholder",
    jobs=[REPLAY, rapid("prop", "TestVerifProp", 48000, 4000000, sq=16, st=16)],
    technique="placeholder",
    level_text="placeholder",
    level_note="placeholder",
    assumptions=[],
)
