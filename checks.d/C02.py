from checks import rapid, plain, fuzz, REPLAY

CHECK = dict(
    pkg="c02", level="exploration",
    rule="Part A: a manifest body of one of seven media types (OCI image/index/artifact, Docker schema2 image/list, schema1 unsigned, "
         "schema1 signed with a hand-built pretty-JWS envelope or through libtrust) written by the harness's own JSON writer (key order, "
         "whitespace, escapes, unknown fields, embedded data, subject, annotations, body mediaType present/absent/contradicting) x entry "
         "(manifest.New from raw or from the struct, RegClient.ManifestGet/ManifestHead against a registry model serving exactly those bytes "
         "and headers, ManifestGet on an OCI layout written raw, ManifestGet with an inline-data descriptor) x expected-digest sources "
         "(reference, descriptor, Docker-Content-Digest; each absent/correct/wrong/other algorithm/whole-envelope/malformed) x media type hints "
         "x re-push target (tag, own digest, the other algorithm's digest, a wrong digest; registry model or layout) x reference form (tag, "
         "implicit default tag, digest, tag+digest, none) x registry client with/without reg.WithCache x path through WithManifestPlatform "
         "(wrapper index whose entry digest is the expected digest; registry and layout) x a second Get/Head by the reported digest before/after "
         "the caller edited or pushed+edited the manifest it was given; layout HEAD and inline-data descriptors on a layout. "
         "Non-trivial = the client's canonical re-marshal of the body differs from the served bytes, or a source other than "
         "'absent'/'correct sha256' is present; distinct by (entry, body, sources, hints). Part B: such a manifest built from raw / from its "
         "struct / unset+SetOrig with a sha256 or sha512 descriptor, followed by a program of 0-8 setter calls over Annotator, Imager, Indexer, "
         "Subjecter and SetOrig with arguments derived from the current value (one-field differences, equal, reordered, empty, fresh), and "
         "'rebuild' steps that re-create the manifest from its own descriptor with the digest cleared and sha256/sha512 preferred (the image "
         "mod digest-algorithm change) from its struct or raw body. "
         "Non-trivial = program length >= 2; distinct by the whole case.",
    jobs=[REPLAY,
          rapid("parta", "TestVerifPropA", 160_000, 8_000_000, sq=8, st=16),
          rapid("partb", "TestVerifPropB", 120_000, 6_000_000, sq=8, st=16),
          fuzz("fuzz", "FuzzVerifManifestNew", 120)],
    technique="property-based testing (rapid): generated manifest bodies and expected-digest source combinations fetched through the real client "
              "(direct constructor, in-process hostile registry model, raw OCI layout, inline descriptor data) judged by independent hashing "
              "(crypto/sha256, crypto/sha512), an independent pretty-JWS payload extractor and an independent encoding/json decode; generated "
              "setter programs interpreted step by step with the same equations after every step; native go fuzz of manifest.New in thorough",
    level_text="Generated-input and generated-program search. Every manifest that is returned must consist of exactly the served bytes, must hash "
               "(in the algorithm of the digest it was obtained for) to the highest-priority expected digest that was supplied, must report the "
               "hash and length of those bytes (of the JWS payload for signed schema1) and a media type that does not contradict the body, and a "
               "ManifestPut of it to a recording registry model / an OCI layout must deliver the identical bytes under the same digest and media type. "
               "After every setter call RawBody == MarshalJSON, the descriptor is the hash/length of RawBody in the descriptor's algorithm, and an "
               "independent decode of RawBody equals what the getters return; a setter that errors changes nothing. Exploration, not proof.",
    level_note="Trusted: the harness's JSON writer, hash and JWS payload code (harness/c02/xparse.go), regmodel as recording registry. When several "
               "expected digests are supplied only the highest-priority one (descriptor, then reference, then header - the order documented on "
               "manifest.New; for a layout: reference, then index.json entry) is required to match; a malformed Docker-Content-Digest header counts "
               "as absent. Nothing is asserted about unset manifests (HEAD, empty body) beyond 'they hand out no body'. A fetch that fails is never "
               "a violation unless every supplied source was correct and the body is inside its family's grammar (non-vacuity).",
    assumptions=["the digest of a signed schema1 manifest is the digest of its JWS payload (content[:formatLength]+formatTail)",
                 "in-memory transport (no TLS, no sockets); transport-level lies (Content-Length) belong to C01/C12"],
)
