from checks import rapid, plain, fuzz, REPLAY

CHECK = dict(
    pkg="c04", level="fault_enumeration",
    rule="(session 3: image graphs include layers of a non-distributable media type without urls; registries negotiating on Accept; layout targets where the top-level manifest cannot be written - a directory at its path - so that the copy fails inside the final manifest put) copy scenario as C03 (graph x pairing x pre-state x options x features x latency plan) + fault plan: a fault-free run counts N requests, then one "
         "faulted run per (position k, kind) with kinds {HTTP 500/502/429/404/401, connection reset before processing, truncated response body, stalled body + "
         "cancel, context cancel on arrival of request k, process death at request k (target frozen and audited as it is)}, optionally a second fault; quick: "
         "3-8 sampled positions x 1-3 kinds per graph, thorough: every position for graphs with N<=150. Oracles: model records at the instant of every manifest "
         "PUT which referenced digests are absent (children first); the content closure must be present when the requested tag/top-level digest is written "
         "(tag last); at every audit instant the target tag is its old value or the source digest with complete content; layout targets are audited at every "
         "source request and after return. A faulted run is non-trivial when the fault hit after something was written and the copy failed; distinct by "
         "(graph shape, pairing, kind, position).",
    jobs=[REPLAY, rapid("prop", "TestVerifProp", 2400, 32000, sq=16, st=16)],
    technique="fault injection at every request position of generated image copies (rapid + in-process model registry owning the transport), ordering invariants judged at the instant of each write",
    level_text="Fault enumeration over request positions of generated copies: HTTP errors, resets, truncated and stalled bodies, cancellation and process death at position k; the model registry judges every manifest PUT at the instant it arrives, layout targets are audited from the source side at every request. Interleavings of the per-child goroutines are perturbed by latency plans, not enumerated.",
    level_note="Trusted: regmodel, audit walker. 'Response lost after the final write' is outside the statement and not generated. Referrers/digest-tags the copy defers on loops are not required at the tag-write instant. Process death = state frozen at arrival of request k.",
    assumptions=["single fault or double fault per run", "crash = freeze at a request boundary of the registry side"],
)
