from checks import rapid, plain, fuzz, REPLAY

CHECK = dict(
    pkg="c06", level="exploration",
    rule="history of 1-25 operations {push by tag, push by digest, push of a manifest object fetched by ManifestGet from a tagged reference (same system / another layout) "
         "by tag or by digest, tag delete, manifest delete with and without referrer check, list with limit/last, head, get by tag and by digest, Close, "
         "concurrent batch of 2-4 operations on pairwise distinct tags, race of one tag delete against one or two pushes to the SAME tag (the late push starts after a drawn number 0-14 of the other operations' requests and the next request is held until it was answered, so every window of the placeholder fall-back is reached)} over a pool of 5 tags x 5 manifests drawn per case from a universe of 9 (two OCI images sharing layers always; Docker image, OCI index, "
         "Docker list, an OCI image addressed by sha512, OCI artifact manifest, unsigned schema1, OCI image without mediaType field); operation variants: tag+digest references, "
         "reference without tag (latest), WithManifestChild, WithManifest(m) on delete, head without RequireDigest, manifest.WithRef objects, already cancelled context; per case: Close after "
         "every mutating operation, a fresh client per step, registry that answers 404 for a never-written repository, interpreted against the real client and a reference model map[tag]digest + set[digest]; systems: model registry with / without tag DELETE "
         "(placeholder fall-back), tag-list page cap 0-5, HEAD without digest header, client manifest cache, latency plans; OCI layouts absent / empty / pre-seeded raw in "
         "regclient's style or other tools' styles (full image name in ref.name, io.containerd.image.name, duplicate and adjacent duplicate entries for one tag, untagged "
         "entries, one manifest under several tags). After EVERY step: TagList (all pages), head+get of every pool tag and every pool digest through the client, and raw "
         "storage (registry maps / index.json + blobs). Non-trivial = a delete executed while two tags shared a manifest, or a batch / same-tag race that really ran concurrently, or a tag "
         "listing that needed >=2 pages; distinct by the whole case (system, features, seed, op sequence).",
    jobs=[REPLAY,
          rapid("prop", "TestVerifProp", 8000, 140000, sq=16, st=16, shrinktime="30s"),
          rapid("conc", "TestVerifConc", 2400, 12000, sq=8, st=16, race=dict(quick=False, thorough=True), shrinktime="30s")],
    technique="model-based property testing (rapid): generated operation histories (as data) interpreted against the real client and an explicit reference model, "
              "compared after every step through the client API and against raw storage of an in-process model registry / raw OCI layout directories",
    level_text="Generated-history search: every step's result and the complete client-visible state (tag list over all pages, head and get of every pool tag and digest) "
               "plus raw storage are compared with a map+set reference model after every step; concurrent batches of commuting operations must leave the state (and "
               "return the results) of their sequential application; races of a tag delete with pushes to the same tag must be serialisable - results and final tag value must be those of some order, and every other tag and every stored manifest must be what that order leaves. Exploration, not proof; goroutine interleavings are sampled (free-running, latency plans, race "
               "detector in the thorough tier), not enumerated.",
    level_note="Trusted: regmodel (conforming registry incl. tag DELETE / 405, Link paging), the hand-written raw layout writer/reader (harness/c06/rawlayout.go), "
               "audit.LayoutProblems. Modelled, not asserted against (DESIGN C06 N): untagged root entries, unreferenced layout manifests (may exist until a Close "
               "collects them), which of several seeded entries for one tag the client resolves first, and — after a manifest delete — whether such a tag disappears "
               "or falls to another seeded entry. Known root causes are handled by narrow allowances: a step is judged strictly first; only if that fails and the raw index shows the trigger of one specific root cause is the step re-verified completely against a model containing exactly that cause's effect (e.g. a full-name entry left behind the pushed entry — the client must still report the pushed manifest); only a fully explained step carries the known signature, anything else keeps its own. While a cause is listed as known, batches touching its trigger run sequentially. Not covered: manifests with a subject (referrers are C10), registries without manifest DELETE, refs carrying tag and "
               "digest together, error kinds (only error vs success is judged).",
    assumptions=["the model registry is conforming: DELETE by digest removes the manifest and every tag pointing at it, DELETE by tag removes that tag only or answers 405, "
                 "tags/list is byte-sorted and paged with Link rel=next",
                 "a layout written by another tool is spec-conformant: every index entry has mediaType, digest and size and its blob exists",
                 "in-memory transport (no TLS, no sockets)"],
)
