from checks import rapid, plain, fuzz, REPLAY

# SOURCE_DATE_EPOC pins mod's process-start timestamp (history entry of an added layer), so a saved case
# yields the same bytes in every process.
_ENV = {"SOURCE_DATE_EPOC": "1700000000"}

CHECK = dict(
    pkg="c13", level="exploration",
    rule="source image built raw by the harness (real tar layers of 0-4 entries incl. directories, whiteouts, sym/hard links, >100-char names, inner tar files, files up to 140 KB; "
         "plain/gzip/zstd; truthful diff_ids; history with empty_layer entries aligned, entries with and without created; inline data; foreign layers with and without stored content; "
         "images without own layers; single image / index of 1-3 platform images / nested index / buildkit attestation entry / referrers / artifact manifest without image config; Docker or OCI "
         "types, with or without the optional mediaType field, canonical or indented JSON; optional old+new base images (single or index; other repo, source repo or other registry) satisfying the "
         "rebase precondition) x source on a model registry or an OCI layout, named by tag, digest or tag+digest x target (default digest, new tag, replace, other repo by tag or digest, other "
         "registry, registry<->layout; empty, stale tag or stale digest reference) x registry feature sets (mount, anonymous mount, HEAD without digest, upload location styles, chunk minimum, "
         "referrers API) x context plan (live / cancelled before the call / cancelled at the k-th request) x program of 0-5 options with generated arguments from all 39 exported mod.With* "
         "modifiers (+WithRefTgt, regctl's --time compositions; layer-add from a seekable or a streaming reader, empty tar, either media-type family) x client with or without the manifest cache regctl configures x optional second "
         "program applied to the result with the same client. CLI engine (jobs cli / clireplay, in-package test of cmd/regctl): the same cases restricted to the 36 option kinds that have a flag, "
         "run as `regctl image mod <src> [--create tag|full-ref] [--replace] <flags>` through NewRootCmd (target flags before or after the option flags, --create together with --replace in "
         "either order) and judged by the same clauses on the target the DOCUMENTED flag semantics name (--create wins over --replace; neither = by digest in the source repository). Oracle = independent audit of the closure of the returned reference in raw target storage (descriptor digest/size/inline data, diff_ids vs. decompressed "
         "layers, history alignment, index entries, referrers and fall-back indexes) and of every manifest written, source frame condition on raw source storage, no-op programs return the source "
         "digest, same program on an identical fresh input returns the same digest (in-process for every case; in a second process with SOURCE_DATE_EPOC pinned for a sample: job crossproc), "
         "all re-checked after Close for layouts. Non-trivial = successful Apply of >=2 options of which at least one touches layers or media types; distinct by (option multiset, image shape, endpoints).",
    jobs=[dict(REPLAY, env=_ENV),
          rapid("prop", "TestVerifProp", 18000, 160000, sq=16, st=16, env=_ENV),
          rapid("crossproc", "TestVerifCrossProc", 480, 6400, sq=8, st=16, env=_ENV),
          # CLI engine: regctl image mod through NewRootCmd (in-package test of cmd/regctl, build tag c13)
          plain("clireplay", "TestVerifC13CLIReplayDir", pkgdir="cmd/regctl", tags="verif,c13", env=_ENV),
          rapid("cli", "TestVerifC13CLI", 4000, 40000, sq=8, st=16, pkgdir="cmd/regctl", tags="verif,c13", env=_ENV)],
    technique="property-based testing (rapid): generated images, endpoint pairings and option programs run through mod.Apply against an in-process model registry and raw OCI layouts; "
              "independent closure auditor (encoding/json, crypto, compress/gzip, zstd) as oracle",
    level_text="Generated-input search over image shapes, endpoint pairings and programs of modification options; every successful mod.Apply is audited from raw target storage "
               "(every descriptor incl. inline data truthful, diff_ids equal to the digests of the decompressed layers, non-empty history aligned with the layers, index entries "
               "naming existing children with stated size and media type), the source closure and tag are compared byte-for-byte with what was materialised, programs whose "
               "arguments change nothing must return the source digest, and the same program on an identical input must return the same digest. Exploration, not proof.",
    level_note="Trusted: regmodel, the harness' own image builder and auditor. An Apply that returns an error is not judged (success rates per option are in the class histogram: "
               "opt:<kind> vs optok:<kind>, solo:/solook: for single-option programs). A panic inside Apply on a conformant image with valid arguments is reported as a violation. "
               "Not asserted: existence of foreign (urls) layer content at the target; referrers when the target is another repository (not copied by design); determinism "
               "without the pinned SOURCE_DATE_EPOC (the history entry of an added layer carries the process start time by design); semantic correctness of an option's effect (only consistency of the result).",
    assumptions=["source content is spec-conformant and complete (a body without mediaType has only OCI-typed entries: regclient types such bodies by their first entry, documented duck typing)",
                 "external-urls-rm is only applied where the external content is stored in the repository (documented precondition: copy with --include-external first)",
                 "option arguments are syntactically valid (non-empty names, parsable platforms, sha256/sha512); no-op claims exclude images with entry-less tar layers (every file-level option drops them by design)",
                 "in-memory transport (no TLS, no sockets)"],
)
