from checks import rapid, plain, fuzz, REPLAY

# SOURCE_DATE_EPOC pins mod's process-start timestamp (history entry of an added layer), so a saved case
# yields the same bytes in every process.
_ENV = {"SOURCE_DATE_EPOC": "1700000000"}

CHECK = dict(
    pkg="c13", level="exploration",
    rule="source image built raw by the harness (real tar layers of 1-4 files incl. directories, whiteouts, symlinks, inner tar files; plain/gzip/zstd; truthful "
         "diff_ids; history with empty_layer entries aligned; inline data; foreign layers; single image / index of 1-3 platform images / buildkit attestation entry / "
         "referrers; Docker or OCI types; optional old+new base images satisfying the rebase precondition) x source on a model registry or an OCI layout x target "
         "(default digest, new tag, replace, other repo by tag or digest, other registry, registry<->layout) x program of 0-5 options with generated arguments from all "
         "39 exported mod.With* modifiers (+WithRefTgt). Oracle = independent audit of the closure of the returned reference in raw target storage (descriptor digest/size/"
         "inline data, diff_ids vs. decompressed layers, history alignment, index entries, referrers and fall-back indexes), source frame condition on raw source storage, "
         "no-op programs return the source digest, same program on an identical fresh input returns the same digest (in-process for every case; in a second process with "
         "SOURCE_DATE_EPOC pinned for a sample: job crossproc), all re-checked after Close for layouts. "
         "Non-trivial = successful Apply of >=2 options of which at least one touches layers or media types; distinct by (option multiset, image shape, endpoints).",
    jobs=[dict(REPLAY, env=_ENV),
          rapid("prop", "TestVerifProp", 20000, 160000, sq=16, st=16, env=_ENV),
          rapid("crossproc", "TestVerifCrossProc", 480, 6400, sq=8, st=16, env=_ENV)],
    technique="property-based testing (rapid): generated images, endpoint pairings and option programs run through mod.Apply against an in-process model registry and raw OCI layouts; "
              "independent closure auditor (encoding/json, crypto, compress/gzip, zstd) as oracle",
    level_text="Generated-input search over image shapes, endpoint pairings and programs of modification options; every successful mod.Apply is audited from raw target storage "
               "(every descriptor incl. inline data truthful, diff_ids equal to the digests of the decompressed layers, non-empty history aligned with the layers, index entries "
               "naming existing children with stated size and media type), the source closure and tag are compared byte-for-byte with what was materialised, programs whose "
               "arguments change nothing must return the source digest, and the same program on an identical input must return the same digest. Exploration, not proof.",
    level_note="Trusted: regmodel, the harness' own image builder and auditor. An Apply that returns an error is not judged (success rates per option are in the class histogram: "
               "opt:<kind> vs optok:<kind>, solo:/solook: for single-option programs). A panic inside Apply on a conformant image with valid arguments is reported as a violation. "
               "Not asserted: existence of foreign (urls) layer content at the target; referrers when the target is another repository (not copied by design); determinism "
               "without the pinned SOURCE_DATE_EPOC (the history entry of an added layer carries the process start time by design); semantic correctness of an option's effect (only consistency of the result).",
    assumptions=["source content is spec-conformant and complete; every history entry carries a created time (mod dereferences it)",
                 "layers hold 1-4 entries (an empty tar layer is dropped by any file-level option, by design)",
                 "in-memory transport (no TLS, no sockets)"],
)
