#!/bin/bash
# Offline setup: nothing to fetch; warm the Go build cache for the harness so the
# first quick check is not dominated by compilation.
export GOFLAGS=-mod=mod GOPROXY=off GOSUMDB=off GOTOOLCHAIN=local
cd "$(dirname "$0")"
mkdir -p build evidence out
(cd /repo && go build ./... ) >/dev/null 2>&1 || true
exit 0
